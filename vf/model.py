"""Free-abelian-group model of dimensions, prefixes and units (DESIGN §2.6) and the
evaluation of JSON expression trees both in the library and in the model.

Expression trees (JSON lists):
    ["u", name]            a unit registered under that name
    ["one"]                One
    ["p", prefix, e]       prefix (by name, "" = IdentityPrefix) times expression e
    ["*", a, b] ["/", a, b] ["^", a, n] ["r", a, n]

Model value of a unit:  (factors: {base unit name: int}, prefix: {base int: Fraction})
with the prefix's dict empty for the identity.  A named derived unit is expanded through
the structure it had when the snapshot was taken (= its definition).
"""
from __future__ import annotations

from fractions import Fraction
from typing import Any, Dict, Optional, Tuple

MFactors = Dict[str, int]
MPrefix = Dict[int, Fraction]
MUnit = Tuple[MFactors, MPrefix]


class NotPerfectPower(Exception):
    pass


def m_prefix_of(p: Any) -> MPrefix:
    if p.base == 0 or p.exponent == 0:
        return {}
    return {p.base: Fraction(p.exponent)}


def m_mul(a: MUnit, b: MUnit, sign: int = 1) -> MUnit:
    f = dict(a[0])
    for k, e in b[0].items():
        f[k] = f.get(k, 0) + sign * e
    p = dict(a[1])
    for k, e in b[1].items():
        p[k] = p.get(k, 0) + sign * e
    return ({k: e for k, e in f.items() if e}, {k: e for k, e in p.items() if e})


def m_pow(a: MUnit, n: int) -> MUnit:
    return ({k: e * n for k, e in a[0].items() if e * n}, {k: e * n for k, e in a[1].items() if e * n})


def m_root(a: MUnit, n: int) -> MUnit:
    if n == 0:
        return ({}, {})
    for e in a[0].values():
        if e % n:
            raise NotPerfectPower()
    for e in a[1].values():
        if e.denominator != 1 or e.numerator % n:
            raise NotPerfectPower()
    return ({k: e // n for k, e in a[0].items()}, {k: Fraction(e.numerator // n) for k, e in a[1].items()})


def m_key(a: MUnit) -> str:
    return repr((sorted(a[0].items()), sorted((b, str(e)) for b, e in a[1].items())))


def m_prefix_value(p: MPrefix) -> Fraction:
    v = Fraction(1)
    for b, e in p.items():
        assert e.denominator == 1
        v *= Fraction(b) ** int(e)
    return v


def m_mixed(p: MPrefix) -> bool:
    return len(p) > 1


class Snapshot:
    """Names and definitional structure of a world's registered units / prefixes, taken
    once, right after the modules are imported."""

    def __init__(self, world):
        m = world.m
        self.world = world
        self.m = m
        self.One = m.One
        self.units: Dict[str, Any] = {}
        self.base_dims: Dict[str, Tuple[int, ...]] = {}
        self.base_name: Dict[int, str] = {}
        self.structure: Dict[str, MUnit] = {}
        self.prefixes: Dict[str, Any] = {"": m.IdentityPrefix}
        for u in world.named_units():
            self.units[u.name] = u
        for u in sorted(m.Unit._base, key=lambda u: u.name or ""):
            if u is m.One:
                continue
            self.base_name[id(u)] = u.name
            self.base_dims[u.name] = tuple(u.dimension.exponents)
        for name, u in self.units.items():
            self.structure[name] = self.describe(u)
        for p in world.named_prefixes():
            self.prefixes[p.name] = p
        self.ndims = len(m.Number.exponents)

    def register_base(self, u) -> None:
        self.units[u.name] = u
        self.base_name[id(u)] = u.name
        self.base_dims[u.name] = tuple(u.dimension.exponents)
        self.structure[u.name] = ({u.name: 1}, {})

    def describe(self, u) -> MUnit:
        """Model value read off a library unit (used for snapshotting definitions and for
        comparing results)."""
        f = {}
        for b, e in u.factors.items():
            if b is self.One:
                continue
            f[self.base_name.get(id(b), f"?{id(b)}")] = e
        return (f, m_prefix_of(u.prefix))

    # model side ------------------------------------------------------------------
    def model(self, expr) -> MUnit:
        op = expr[0]
        if op == "u":
            return self.structure[expr[1]]
        if op == "one":
            return ({}, {})
        if op == "p":
            p = self.prefixes[expr[1]]
            return m_mul(self.model(expr[2]), ({}, m_prefix_of(p)))
        if op == "*":
            return m_mul(self.model(expr[1]), self.model(expr[2]))
        if op == "/":
            return m_mul(self.model(expr[1]), self.model(expr[2]), -1)
        if op == "^":
            return m_pow(self.model(expr[1]), expr[2])
        if op == "r":
            return m_root(self.model(expr[1]), expr[2])
        raise ValueError(op)

    def model_dim(self, mu: MUnit) -> Tuple[int, ...]:
        v = [0] * self.ndims
        for name, e in mu[0].items():
            for i, x in enumerate(self.base_dims[name]):
                v[i] += x * e
        return tuple(v)

    # library side ----------------------------------------------------------------
    def build(self, expr):
        op = expr[0]
        if op == "u":
            return self.units[expr[1]]
        if op == "one":
            return self.One
        if op == "p":
            return self.prefixes[expr[1]] * self.build(expr[2])
        if op == "*":
            return self.build(expr[1]) * self.build(expr[2])
        if op == "/":
            return self.build(expr[1]) / self.build(expr[2])
        if op == "^":
            return self.build(expr[1]) ** expr[2]
        if op == "r":
            return self.build(expr[1]).root(expr[2])
        raise ValueError(op)

    def build_terms(self, terms):
        """terms: list of [prefix name, unit name, exponent], multiplied in listed order."""
        r = self.One
        for p, u, e in terms:
            r = r * (self.prefixes[p] * self.units[u]) ** e
        return r

    def model_terms(self, terms) -> MUnit:
        r: MUnit = ({}, {})
        for p, u, e in terms:
            t = m_mul(self.structure[u], ({}, m_prefix_of(self.prefixes[p])))
            r = m_mul(r, m_pow(t, e))
        return r


def render(expr) -> str:
    op = expr[0]
    if op == "u":
        return expr[1].replace(" ", "_")
    if op == "one":
        return "One"
    if op == "p":
        return f"{expr[1] or 'id'}*{render(expr[2])}"
    if op in "*/":
        return f"({render(expr[1])}{op}{render(expr[2])})"
    if op == "^":
        return f"{render(expr[1])}**{expr[2]}"
    if op == "r":
        return f"{render(expr[1])}.root({expr[2]})"
    return str(expr)


def count_ops(expr) -> int:
    op = expr[0]
    if op in ("u", "one"):
        return 0
    if op == "p":
        return 1 + count_ops(expr[2])
    if op in "*/":
        return 1 + count_ops(expr[1]) + count_ops(expr[2])
    return 1 + count_ops(expr[1])
