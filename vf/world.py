"""Fresh 'worlds' of the measured library and interception of its declarations.

measured keeps every registry in class attributes / module globals, so a new world is
obtained in-process by removing every ``measured*`` module from ``sys.modules`` and
importing again (DESIGN §2.3).  ``conversions.equate`` / ``conversions.translate`` are
wrapped immediately after the core import -- before any unit module runs -- so every
declaration (shipped or synthetic) is logged with its operands *as written*.
"""
from __future__ import annotations

import importlib
import sys
from typing import Any, Dict, List, Optional, Sequence

import atexit
import shutil
import tempfile

ALL_SYSTEMS = "measured.systems"

# Worlds re-import the library many times per process.  The sandbox sets
# PYTHONDONTWRITEBYTECODE, which would recompile the 4000-line generated parser on every
# import; keep byte code in a per-process scratch directory instead (validated against the
# source's mtime/size by the import system, so edits to /repo are always picked up).
_PYC = tempfile.mkdtemp(prefix="vf_pyc_")
sys.pycache_prefix = _PYC
sys.dont_write_bytecode = False
atexit.register(shutil.rmtree, _PYC, True)

SHIPPED_MODULES = [
    "si", "us", "avoirdupois", "troy", "energy", "astronomical", "natural", "metric",
    "iec", "iso", "eu", "fff", "apocrypha", "computing", "acoustics", "electronics",
    "music", "geometry", "physics",
]


def purge() -> None:
    for k in [k for k in sys.modules if k == "measured" or k.startswith("measured.")]:
        del sys.modules[k]


_active: Optional["World"] = None


def _stash_active() -> None:
    global _active
    if _active is not None:
        _active._mods = {k: v for k, v in sys.modules.items() if k == "measured" or k.startswith("measured.")}


class World:
    """A freshly imported copy of the library plus the declaration log.

    Only one world is *active* (present in sys.modules) at a time; the library does a few
    lazy ``from measured import ...`` at call time, so code of a world must only run while
    that world is active.  ``activate()`` switches back to an older world."""

    def __init__(self, modules: Sequence[str] = (), intercept: bool = True):
        global _active
        _stash_active()
        purge()
        _active = self
        self._mods = {}
        self.m = importlib.import_module("measured")
        self.conversions = importlib.import_module("measured.conversions")
        self.decls: List[dict] = []  # {'kind': 'equate', 'a': Quantity, 'b': Quantity, 'seq': n}
        self.scales: List[dict] = []  # {'kind': 'translate', 'scale': Unit, 'zero': Quantity}
        self.log: List[dict] = []
        if intercept:
            self._install()
        # One.equals(1*One) ran during the core import; it is an identity and irrelevant
        self.modules = {}
        for name in modules:
            self.load(name)

    def _install(self) -> None:
        conv = self.conversions
        orig_equate, orig_translate = conv.equate, conv.translate
        world = self

        def equate(a, b):
            rec = {"kind": "equate", "a": a, "b": b, "seq": len(world.log)}
            orig_equate(a, b)  # record only declarations that were accepted
            world.decls.append(rec)
            world.log.append(rec)

        def translate(scale, zero):
            rec = {"kind": "translate", "scale": scale, "zero": zero, "seq": len(world.log)}
            orig_translate(scale, zero)
            world.scales.append(rec)
            world.log.append(rec)

        conv.equate = equate
        conv.translate = translate
        self._orig = (orig_equate, orig_translate)

    def activate(self) -> "World":
        global _active
        if _active is not self:
            _stash_active()
            purge()
            sys.modules.update(self._mods)
            _active = self
        return self

    def load(self, name: str) -> Any:
        full = name if name.startswith("measured") else "measured." + name
        mod = importlib.import_module(full)
        self.modules[name] = mod
        return mod

    # convenience -----------------------------------------------------------------
    def named_units(self) -> list:
        """All units registered under a name, one entry per object, sorted by name."""
        Unit = self.m.Unit
        seen, out = set(), []
        for name in sorted(Unit._by_name):
            u = Unit._by_name[name]
            if id(u) not in seen:
                seen.add(id(u))
                out.append(u)
        return out

    def named_prefixes(self) -> list:
        Prefix = self.m.Prefix
        seen, out = set(), []
        for name in sorted(Prefix._by_name):
            p = Prefix._by_name[name]
            if id(p) not in seen:
                seen.add(id(p))
                out.append(p)
        out.sort(key=lambda p: (p.base, p.exponent))
        return out


_shared: Optional[World] = None


def shared_world() -> World:
    """One world with every shipped module, reused by the non-history checks of a process."""
    global _shared
    if _shared is None:
        _shared = World([ALL_SYSTEMS, "geometry", "physics"])
    return _shared.activate()
