"""Common run machinery: collecting outcomes of generated cases, bucketing failures,
matching them against the committed known-findings file, minimising, writing replay and
evidence files, and turning all that into the exit-code / stdout contract.

A *case* is a JSON-able value (dicts/lists/str/int/float/bool/None).  A property module
provides

    ID            "C02"
    RULE          text of the generation / non-triviality rule (goes into the evidence)
    strategy(tier)            -> Hypothesis strategy producing cases   (or None)
    enumerate_cases(tier)     -> iterable of cases enumerated exhaustively (optional)
    run_case(case) -> Outcome (never raises for a property failure; a raise = harness error)
    budget(tier)  -> dict(examples=..., shards=...)

The collector never stops at the first failure (DESIGN §2.2).
"""
from __future__ import annotations

import hashlib
import json
import os
import sys
import time
import traceback
from collections import Counter
from dataclasses import dataclass, field
from typing import Any, Callable, Dict, Iterable, List, Optional, Tuple

ROOT = os.path.dirname(os.path.dirname(os.path.abspath(__file__)))
# registered commands always write to /verif/evidence and /verif/replays; the two variables
# only exist so that sensitivity runs against a patched scratch copy (tools/try_seed.sh) do
# not overwrite the evidence of the real tree
EVIDENCE_DIR = os.environ.get("VF_EVIDENCE_DIR") or os.path.join(ROOT, "evidence")
REPLAY_DIR = os.environ.get("VF_REPLAY_DIR") or os.path.join(ROOT, "replays")
FINDINGS_FILE = os.path.join(ROOT, "known_findings.json")


def seed_value() -> int:
    try:
        return int(os.environ.get("VERIF_SEED", "1"))
    except ValueError:
        return 1


def canon(case: Any) -> str:
    return json.dumps(case, sort_keys=True, ensure_ascii=False, default=str)


def case_hash(case: Any) -> str:
    return hashlib.sha1(canon(case).encode("utf-8")).hexdigest()[:16]


def case_size(case: Any) -> int:
    return len(canon(case))


@dataclass
class Failure:
    """One observed disagreement with the oracle.

    bucket: stable, *specific* identity of the root cause as far as the check can tell
            independently of the code under test (clause + shape class / call site)
    detail: human-readable description (expected / observed)
    """

    bucket: str
    detail: str


@dataclass
class Outcome:
    failures: List[Failure] = field(default_factory=list)
    nontrivial: Optional[str] = None  # canonical key when the case is non-trivial
    classes: List[str] = field(default_factory=list)  # labels for the histogram
    invalid: bool = False  # case violates the generator's own preconditions
    inconclusive: Optional[str] = None  # e.g. float range exceeded
    excluded: List[str] = field(default_factory=list)  # excluded-by-construction tags
    sample: Any = None  # optional pretty form of the case for evidence samples

    def fail(self, bucket: str, detail: str) -> None:
        self.failures.append(Failure(bucket, detail))


class Collector:
    def __init__(self, prop_id: str):
        self.prop_id = prop_id
        self.evaluations = 0
        self.invalid = 0
        self.inconclusive = Counter()
        self.nontrivial = set()
        self.classes = Counter()
        self.excluded = Counter()
        self.samples: List[Any] = []
        self.buckets: Dict[str, List[Tuple[int, Any, str]]] = {}
        self.bucket_counts = Counter()
        self.max_samples = 12
        self.extra: Dict[str, Any] = {}
        self.failing_cases = 0
        self._open = None
        # once this many cases have failed the run has its verdict; remaining cases are skipped
        # (counted) so that a badly broken tree cannot make a check run for hours
        self.max_failing_cases = 400
        self.skipped_after_limit = 0

    def saturated(self) -> bool:
        if self.failing_cases >= self.max_failing_cases:
            self.skipped_after_limit += 1
            return True
        return False

    def add(self, case: Any, out: Outcome) -> None:
        self.evaluations += 1
        if out.invalid:
            self.invalid += 1
            return
        if out.inconclusive:
            self.inconclusive[out.inconclusive] += 1
        for c in out.classes:
            self.classes[c] += 1
        for e in out.excluded:
            self.excluded[e] += 1
        if out.nontrivial is not None:
            if out.nontrivial not in self.nontrivial:
                self.nontrivial.add(out.nontrivial)
                if len(self.samples) < self.max_samples:
                    self.samples.append(out.sample if out.sample is not None else case)
        if out.failures:
            if self._open is None:
                self._open = load_findings(self.prop_id)[0]
            # failures that belong to recorded known findings do not count towards the limit
            if any(not any(finding_matches(e, f.bucket) for e in self._open) for f in out.failures):
                self.failing_cases += 1
        for f in out.failures:
            self.bucket_counts[f.bucket] += 1
            lst = self.buckets.setdefault(f.bucket, [])
            lst.append((case_size(case), case, f.detail))
            if len(lst) > 40:
                lst.sort(key=lambda t: t[0])
                del lst[20:]

    # merging of shard results (all fields are picklable)
    def merge(self, other: "Collector") -> None:
        self.evaluations += other.evaluations
        self.invalid += other.invalid
        self.inconclusive.update(other.inconclusive)
        self.nontrivial |= other.nontrivial
        self.classes.update(other.classes)
        self.excluded.update(other.excluded)
        for s in other.samples:
            if len(self.samples) < self.max_samples:
                self.samples.append(s)
        self.failing_cases += other.failing_cases
        self.skipped_after_limit += other.skipped_after_limit
        self.bucket_counts.update(other.bucket_counts)
        for b, lst in other.buckets.items():
            self.buckets.setdefault(b, []).extend(lst)
        for k, v in other.extra.items():
            if isinstance(v, (int, float)) and isinstance(self.extra.get(k), (int, float)):
                self.extra[k] += v
            else:
                self.extra.setdefault(k, v)


# --------------------------------------------------------------------------------------
# known findings


def load_findings(prop_id: str) -> Tuple[List[dict], List[dict]]:
    if not os.path.exists(FINDINGS_FILE):
        return [], []
    with open(FINDINGS_FILE, encoding="utf-8") as fh:
        data = json.load(fh)
    mine = [e for e in data.get("findings", []) if e.get("property") == prop_id]
    return (
        [e for e in mine if e.get("status") == "open"],
        [e for e in mine if e.get("status") == "fixed"],
    )


def finding_matches(entry: dict, bucket: str) -> bool:
    """An open entry exempts exactly the buckets it lists: exact names, or glob patterns
    ('*' wildcards) for a family that shares one call site / root cause."""
    import fnmatch

    for pat in entry.get("buckets", []):
        if "*" in pat:
            if fnmatch.fnmatchcase(bucket, pat.replace("[", "[[]")):
                return True
        elif bucket == pat:
            return True
    return False


# --------------------------------------------------------------------------------------
# generic JSON shrinker (bounded ddmin; deterministic)


def _shrink_candidates(x: Any) -> Iterable[Any]:
    if isinstance(x, list):
        n = len(x)
        if n > 3:
            yield x[: n // 2]
            yield x[n // 2 :]
        for i in range(n):
            yield x[:i] + x[i + 1 :]
        for i in range(n):
            for c in _shrink_candidates(x[i]):
                yield x[:i] + [c] + x[i + 1 :]
    elif isinstance(x, dict):
        for k in sorted(x):
            for c in _shrink_candidates(x[k]):
                y = dict(x)
                y[k] = c
                yield y
    elif isinstance(x, bool):
        if x:
            yield False
    elif isinstance(x, int):
        for c in (0, 1, -1, 2, -2, x // 2, -x):
            if c != x:
                yield c
    elif isinstance(x, float):
        if x == x and abs(x) < 1e15:
            for c in (0.0, 1.0, -1.0, 2.0, float(int(x))):
                if c != x:
                    yield c


def _weight(x: Any) -> Tuple[int, float]:
    """Order used by the shrinker: shorter serialisation first, then smaller numbers
    (positive before negative)."""
    tot = 0.0

    def walk(v: Any) -> None:
        nonlocal tot
        if isinstance(v, bool):
            tot += 1 if v else 0
        elif isinstance(v, (int, float)):
            if v == v and abs(v) != float("inf"):
                tot += abs(v) + (0.5 if v < 0 else 0)
        elif isinstance(v, list):
            for i in v:
                walk(i)
        elif isinstance(v, dict):
            for i in v.values():
                walk(i)

    walk(x)
    return (case_size(x), tot)


def shrink(case: Any, still_fails: Callable[[Any], bool], budget: int = 400) -> Any:
    """Greedy bounded minimisation of a JSON case; deterministic; a candidate is kept only
    if it is strictly smaller by _weight and still fails in the same bucket."""
    best = case
    spent = 0
    improved = True
    while improved and spent < budget:
        improved = False
        wb = _weight(best)
        for cand in _shrink_candidates(best):
            if spent >= budget:
                break
            if not (_weight(cand) < wb):
                continue
            spent += 1
            try:
                ok = still_fails(cand)
            except Exception:
                ok = False
            if ok:
                best = cand
                improved = True
                break
    return best


# --------------------------------------------------------------------------------------
# Hypothesis driver


def drive(strategy, run_case: Callable[[Any], Outcome], collector: Collector, seed: int, examples: int) -> None:
    import hypothesis
    from hypothesis import HealthCheck, Phase, given, settings

    @hypothesis.seed(seed)
    @settings(
        max_examples=examples,
        database=None,
        deadline=None,
        derandomize=False,
        report_multiple_bugs=False,
        suppress_health_check=list(HealthCheck),
        phases=[Phase.generate],
    )
    @given(strategy)
    def body(case):
        if collector.saturated():
            return
        out = run_case(case)
        collector.add(case, out)

    body()


# --------------------------------------------------------------------------------------
# finishing a run


def write_replay(prop_id: str, bucket: str, case: Any, detail: str) -> str:
    d = os.path.join(REPLAY_DIR, prop_id)
    os.makedirs(d, exist_ok=True)
    path = os.path.join(d, f"{case_hash([bucket, case])}.json")
    with open(path, "w", encoding="utf-8") as fh:
        json.dump({"property": prop_id, "bucket": bucket, "detail": detail, "case": case}, fh, ensure_ascii=False, indent=1, default=str)
    return os.path.relpath(path, ROOT)


def finish(
    prop,
    collector: Collector,
    tier: str,
    seed: int,
    t0: float,
    witnesses: Optional[Dict[str, bool]] = None,
    exhaustive: bool = False,
    assumptions: Optional[List[str]] = None,
    vacuity: Optional[List[str]] = None,
) -> int:
    """Prints KNOWN-FINDING / VIOLATION lines, writes replay + evidence, returns exit code."""
    prop_id = prop.ID
    open_entries, fixed_entries = load_findings(prop_id)
    known_hit: Dict[str, int] = {}
    violations: List[Tuple[str, Any, str]] = []
    for bucket, lst in sorted(collector.buckets.items()):
        entry = next((e for e in open_entries if finding_matches(e, bucket)), None)
        if entry is not None:
            known_hit[entry["id"]] = known_hit.get(entry["id"], 0) + collector.bucket_counts[bucket]
            continue
        lst.sort(key=lambda t: t[0])
        _, case, detail = lst[0]
        violations.append((bucket, case, detail))

    lines: List[str] = []
    witnesses = witnesses or {}
    for e in open_entries:
        wit_fails = witnesses.get(e["id"])
        if wit_fails or known_hit.get(e["id"]):
            lines.append(f"KNOWN-FINDING: property={prop_id} {e['id']}: {e['what']}")
    replay_paths = []
    for bucket, case, detail in violations:
        still = getattr(prop, "still_fails", None)
        small = case
        if still is not None:
            try:
                small = shrink(case, lambda c: still(c, bucket), budget=300 if tier == "quick" else 1500)
            except Exception:
                small = case
        if small is not case:
            try:
                detail = next(f.detail for f in prop.run_case(small).failures if f.bucket == bucket)
            except Exception:
                pass
        path = write_replay(prop_id, bucket, small, detail)
        replay_paths.append(path)
        lines.append(f"VIOLATION property={prop_id} replay={path}")
        lines.append(f"  bucket={bucket} n={collector.bucket_counts[bucket]} detail={detail[:400]}")

    coverage = {
        "evaluations": collector.evaluations,
        "distinct_nontrivial": len(collector.nontrivial),
        "rule": prop.RULE,
        "samples": collector.samples[: collector.max_samples],
        "exhaustive": bool(exhaustive),
        "classes": dict(sorted(collector.classes.items())),
        "invalid_cases": collector.invalid,
        "cases_skipped_after_failure_limit": collector.skipped_after_limit,
        "inconclusive": dict(collector.inconclusive),
        "excluded_by_construction": dict(sorted(collector.excluded.items())),
        "excluded_known": {k: v for k, v in sorted(known_hit.items())},
        "known_findings_reported": [l for l in lines if l.startswith("KNOWN-FINDING")],
        "failure_buckets": {b: collector.bucket_counts[b] for b in sorted(collector.buckets)},
        "fixed_findings_on_record": [f"fixed: property={prop_id} {e.get('commit','?')} {e.get('what','')}" for e in fixed_entries],
    }
    coverage.update(collector.extra)
    evidence = {
        "property_id": prop_id,
        "tier": tier,
        "seed": seed,
        "level": "exploration",
        "coverage": coverage,
        "assumptions": assumptions or getattr(prop, "ASSUMPTIONS", []),
        "wall_s": round(time.time() - t0, 3),
        "violations": len(violations),
    }
    os.makedirs(EVIDENCE_DIR, exist_ok=True)
    with open(os.path.join(EVIDENCE_DIR, f"{prop_id}.json"), "w", encoding="utf-8") as fh:
        json.dump(evidence, fh, ensure_ascii=False, indent=1, default=str)

    for l in lines:
        print(l)
    if violations:
        return 1
    if vacuity:
        for v in vacuity:
            print(f"INCONCLUSIVE property={prop_id} vacuous class: {v}")
        return 2
    print(
        f"OK property={prop_id} tier={tier} seed={seed} evaluations={collector.evaluations} "
        f"distinct_nontrivial={len(collector.nontrivial)} wall_s={evidence['wall_s']}"
    )
    return 0


def innermost_frame(exc: BaseException) -> str:
    """'<file>.<function>' of the innermost traceback frame that lies inside the measured
    package (used as part of bucket keys for escaping exceptions)."""
    tb = exc.__traceback__
    site = "?"
    while tb is not None:
        fn = tb.tb_frame.f_code.co_filename
        if os.sep + "measured" + os.sep in fn:
            code = tb.tb_frame.f_code
            site = os.path.splitext(os.path.basename(fn))[0] + "." + getattr(code, "co_qualname", code.co_name)
        tb = tb.tb_next
    return site


def harness_error(prop_id: str, exc: BaseException) -> int:
    print(f"HARNESS-ERROR property={prop_id}: {type(exc).__name__}: {exc}", file=sys.stderr)
    traceback.print_exc()
    return 2
