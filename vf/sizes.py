"""Exact unit-size oracle (DESIGN §2.5).

Solves the size of every base unit, as an exact Fraction multiple of a product of root
units, from the intercepted declarations only.  Nothing here calls the library's
conversion code; the only things read from library objects are ``unit.factors``,
``unit.prefix.base/.exponent`` and quantity magnitudes of the declarations as written.
"""
from __future__ import annotations

from decimal import Decimal
from fractions import Fraction
from typing import Any, Dict, List, Optional, Tuple


def frac(x: Any) -> Fraction:
    if isinstance(x, Fraction):
        return x
    if isinstance(x, (int, float, Decimal)):
        return Fraction(x)  # exact for float and Decimal
    raise TypeError(type(x))


def prefix_value(p: Any) -> Optional[Fraction]:
    """Exact value of a prefix with an integral exponent; None for the mixed-base
    (float exponent) prefixes, whose value is only approximate by construction."""
    if p.base == 0:
        return Fraction(1)
    e = p.exponent
    if isinstance(e, int) or (isinstance(e, float) and e == int(e)):
        return Fraction(p.base) ** int(e)
    return None


def prefix_value_approx(p: Any) -> Fraction:
    v = prefix_value(p)
    if v is not None:
        return v
    return Fraction(float(p.base) ** float(p.exponent))


class Sizes:
    def __init__(self, world, One):
        self.One = One
        self.size: Dict[Any, Fraction] = {One: Fraction(1)}
        self.rootvec: Dict[Any, Dict[Any, Fraction]] = {One: {}}
        self.roots: List[Any] = []
        self.residuals: List[dict] = []
        self.unsolved: List[dict] = []
        self.tree_edges: List[dict] = []
        self._solve(world.decls)
        # base units never mentioned on a solvable declaration are their own roots
        for u in sorted(world.m.Unit._base, key=lambda u: u.name or ""):
            if u not in self.size:
                self._make_root(u)

    def _make_root(self, u) -> None:
        self.size[u] = Fraction(1)
        self.rootvec[u] = {u: Fraction(1)}
        self.roots.append(u)

    @staticmethod
    def _combined(rec) -> Tuple[Dict[Any, int], Optional[Fraction]]:
        """declaration  a.mag * a.unit = b.mag * b.unit  as  prod base^e = ratio"""
        a, b = rec["a"], rec["b"]
        pa, pb = prefix_value(a.unit.prefix), prefix_value(b.unit.prefix)
        if pa is None or pb is None:
            return {}, None
        comb: Dict[Any, int] = {}
        for u, e in a.unit.factors.items():
            comb[u] = comb.get(u, 0) + e
        for u, e in b.unit.factors.items():
            comb[u] = comb.get(u, 0) - e
        comb = {u: e for u, e in comb.items() if e != 0}
        ma, mb = frac(a.magnitude), frac(b.magnitude)
        if ma == 0 or mb == 0:
            return comb, None
        # ma*pa*prod(a) = mb*pb*prod(b)  =>  prod(a)/prod(b) = mb*pb/(ma*pa)
        return comb, (mb * pb) / (ma * pa)

    def _solve(self, decls: List[dict]) -> None:
        One = self.One
        pending = []
        for rec in decls:
            comb, ratio = self._combined(rec)
            comb.pop(One, None)
            if ratio is None:
                self.unsolved.append(rec)
                continue
            pending.append((rec, comb, ratio))
        while pending:
            progress = False
            rest = []
            for rec, comb, ratio in pending:
                unk = [u for u in comb if u not in self.size]
                if not unk:
                    val = Fraction(1)
                    for u, e in comb.items():
                        val *= self.size[u] ** e
                    vec: Dict[Any, Fraction] = {}
                    for u, e in comb.items():
                        for r, k in self.rootvec[u].items():
                            vec[r] = vec.get(r, 0) + k * e
                    vec = {r: k for r, k in vec.items() if k}
                    self.residuals.append(
                        {"rec": rec, "residual": val / ratio - 1, "consistent_roots": not vec,
                         "degree": sum(abs(e) for e in comb.values())}
                    )
                    progress = True
                elif len(unk) == 1 and abs(comb[unk[0]]) == 1:
                    u = unk[0]
                    val = Fraction(1)
                    vec = {}
                    for v, e in comb.items():
                        if v is u:
                            continue
                        val *= self.size[v] ** e
                        for r, k in self.rootvec[v].items():
                            vec[r] = vec.get(r, 0) - k * e * comb[u]
                    s = ratio / val
                    self.size[u] = s if comb[u] == 1 else 1 / s
                    self.rootvec[u] = {r: k for r, k in vec.items() if k}
                    self.tree_edges.append(rec)
                    progress = True
                else:
                    rest.append((rec, comb, ratio))
            pending = rest
            if pending and not progress:
                # choose a root: the first unknown on the right-hand side (the defining side)
                rec, comb, ratio = pending[0]
                cands = [u for u in list(rec["b"].unit.factors) + list(rec["a"].unit.factors)
                         if u not in self.size and u is not One]
                self._make_root(cands[0])

    # queries ---------------------------------------------------------------------
    def unit_size(self, u, approx_mixed: bool = False) -> Optional[Fraction]:
        p = prefix_value(u.prefix)
        if p is None:
            if not approx_mixed:
                return None
            p = prefix_value_approx(u.prefix)
        s = p
        for f, e in u.factors.items():
            if f is self.One:
                continue
            if f not in self.size:
                return None
            s *= self.size[f] ** e
        return s

    def root_vector(self, u) -> Optional[Dict[Any, Fraction]]:
        vec: Dict[Any, Fraction] = {}
        for f, e in u.factors.items():
            if f is self.One:
                continue
            if f not in self.rootvec:
                return None
            for r, k in self.rootvec[f].items():
                vec[r] = vec.get(r, 0) + k * e
        return {r: k for r, k in vec.items() if k}

    def determined(self, a, b) -> bool:
        va, vb = self.root_vector(a), self.root_vector(b)
        return va is not None and vb is not None and va == vb

    def ratio(self, src, dst, approx_mixed: bool = False) -> Optional[Fraction]:
        """Exact factor k such that  m src = (m*k) dst ; None when not determined."""
        if not self.determined(src, dst):
            return None
        a, b = self.unit_size(src, approx_mixed), self.unit_size(dst, approx_mixed)
        if a is None or b is None:
            return None
        return a / b
