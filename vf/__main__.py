"""CLI:  /venv/bin/python -m vf <ID> [--tier quick|thorough] [--replay PATH]

exit 0: property held on everything explored (KNOWN-FINDING lines possible)
exit 1: VIOLATION property=<id> replay=<path>
exit 2: harness error / inconclusive (never a violation)
"""
from __future__ import annotations

import argparse
import importlib
import json
import os
import sys
import time

from . import core


def main(argv=None) -> int:
    ap = argparse.ArgumentParser(prog="vf")
    ap.add_argument("prop")
    ap.add_argument("--tier", default=os.environ.get("VERIF_TIER", "quick"), choices=["quick", "thorough"])
    ap.add_argument("--replay")
    ap.add_argument("--examples", type=int, default=None, help="override the per-shard example count")
    ap.add_argument("--shards", type=int, default=None)
    args = ap.parse_args(argv)
    pid = args.prop.upper()
    try:
        mod = importlib.import_module(f"vf.props.{pid.lower()}")
    except ImportError as e:
        return core.harness_error(pid, e)
    seed = core.seed_value()
    try:
        if args.replay:
            from .run import replay

            return replay(mod, args.replay)
        from .run import standard_run

        runner = getattr(mod, "run", None)
        if runner is not None:
            return runner(args.tier, seed, args)
        return standard_run(mod, args.tier, seed, args)
    except SystemExit:
        raise
    except BaseException as e:  # harness errors are exit 2, never a VIOLATION
        return core.harness_error(pid, e)


if __name__ == "__main__":
    sys.stdout.reconfigure(line_buffering=True)
    sys.exit(main())
