"""Shared generator machinery for the conversion family (C04 C05 C06 C07 C12).

Everything is computed over the shared world (all shipped modules) from unit *structure*
only.  Terms are JSON triples [prefix name, unit name, exponent].

dok_pair():  constructive generator of (source terms, target terms) inside D_ok
             (DESIGN §2.7): a sign is drawn per fundamental dimension, terms are drawn
             from the pool of named units compatible with that sign vector, and the
             target is derived term by term by (a) swapping in another named unit of the
             same dimension, (b) regrouping a power unit (acre <-> ft**2), (c) expanding
             a derived unit into units of its fundamental dimensions; then shuffled.
free_pair(): unrestricted shapes over all offset-free named units (the property's full
             space) -- used for the excluded-by-construction statistics and the
             metamorphic clauses that hold everywhere.
"""
from __future__ import annotations

from decimal import Decimal
from fractions import Fraction
from typing import Any, Dict, List, Optional, Tuple

from hypothesis import strategies as st

from . import domain, model
from .sizes import Sizes
from .world import shared_world


class Ctx:
    pass


_MEMO: Dict[Any, Any] = {}


def memo(key, factory):
    """Strategy objects are expensive to construct/validate; build each one once."""
    v = _MEMO.get(key)
    if v is None:
        v = _MEMO[key] = factory()
    return v


def pick(draw, key, seq):
    """draw one element of seq through a memoised sampled_from strategy"""
    return draw(memo(("pick", key), lambda: st.sampled_from(list(seq))))


CTX: Optional[Ctx] = None


def ctx() -> Ctx:
    global CTX
    if CTX is not None:
        shared_world()  # re-activate
        return CTX
    w = shared_world()
    m = w.m
    c = Ctx()
    c.w, c.m = w, m
    c.snap = model.Snapshot(w)
    c.sizes = Sizes(w, m.One)
    c.One = m.One
    scale_units = {id(s["scale"]) for s in w.scales}
    nd = len(m.Number.exponents)
    c.nd = nd
    c.units: Dict[str, Any] = {}
    c.info: Dict[str, dict] = {}
    for u in w.named_units():
        if id(u) in scale_units or u is m.One:
            continue
        if c.sizes.unit_size(u) is None:
            continue
        dims = tuple(u.dimension.exponents)
        # per-fundamental sign demanded of the exponent e with which the unit is used:
        # +1 -> e must be >0 for this unit to put that dimension in the numerator, i.e.
        # for each base factor f**k: sign(k*e) must equal the drawn sign of every
        # dimension in f's support.
        ok = True
        need: Dict[int, int] = {}  # fundamental index -> sign required when e > 0
        pos_only = False
        for f, k in u.factors.items():
            if f is m.One:
                continue
            kind = domain.dimkind(f.dimension.exponents)
            if kind in ("mixed", "neg"):
                ok = False
                break
            if kind == "num":
                if k < 0:
                    ok = False
                    break
                pos_only = True
                continue
            if kind in ("power", "multi"):
                if k < 0:
                    ok = False
                    break
                pos_only = True
            for i, x in enumerate(f.dimension.exponents):
                if x:
                    s = 1 if k > 0 else -1
                    if need.setdefault(i, s) != s:
                        ok = False
            if not ok:
                break
        c.units[u.name] = u
        c.info[u.name] = {"dims": dims, "dok_term": ok, "need": need, "pos_only": pos_only,
                          "kind": domain.dimkind(dims)}
    c.names = sorted(c.units)
    c.dok_names = [n for n in c.names if c.info[n]["dok_term"]]
    c.bydim: Dict[Tuple[int, ...], List[str]] = {}
    for n in c.names:
        c.bydim.setdefault(c.info[n]["dims"], []).append(n)
    c.dok_bydim: Dict[Tuple[int, ...], List[str]] = {}
    for n in c.dok_names:
        c.dok_bydim.setdefault(c.info[n]["dims"], []).append(n)
    # fundamental-dimension units (for expansions / regrouping)
    c.fund_units: Dict[int, List[str]] = {}
    for n in c.dok_names:
        d = c.info[n]["dims"]
        nz = [i for i, x in enumerate(d) if x]
        if len(nz) == 1 and d[nz[0]] == 1:
            c.fund_units.setdefault(nz[0], []).append(n)
    c.prefixes = sorted(n for n in c.snap.prefixes if n)
    c.si_prefixes = sorted(n for n, p in c.snap.prefixes.items() if n and p.base == 10)
    c.common_prefixes = [n for n in ("kilo", "milli", "mega", "micro", "centi", "giga", "nano", "hecto", "deci", "deca") if n in c.snap.prefixes]
    CTX = c
    return c


# ------------------------------------------------------------------ helpers on terms


def compatible(c: Ctx, name: str, e: int, signs: Dict[int, int]) -> bool:
    inf = c.info[name]
    if not inf["dok_term"]:
        return False
    if inf["pos_only"] and e < 0:
        return False
    sg = 1 if e > 0 else -1
    for i, s in inf["need"].items():
        if signs.get(i, s * sg) != s * sg:
            return False
    return True


def build(c: Ctx, terms) -> Any:
    return c.snap.build_terms(terms)


LO, HI = Fraction(1, 10**250), Fraction(10) ** 250


PROVENANCES = ("fresh", "used", "neg-of-used", "abs-of-used", "pos-of-used", "times-one-of-used")


def provenance(mag, unit, other=None) -> int:
    """a deterministic choice of how the operand is obtained, derived from the operand itself so
    that every case replays the same way"""
    import zlib

    try:
        desc = (sorted((f.name or "?", e) for f, e in unit.factors.items()), unit.prefix.base, repr(unit.prefix.exponent))
    except Exception:  # noqa -- a unit the tree under test has damaged: any stable choice will do
        desc = None
    return zlib.crc32(repr((repr(mag), desc)).encode()) % len(PROVENANCES)


def quantity(mag, unit, other=None, prov=None, classes=None):
    """The quantity mag*unit -- freshly written, or obtained from an object that has already
    been compared, added and converted, through unary operators or a multiplication by one.
    What an operand has been used for before, and which operator produced it, must not matter to
    any later operation on it (state kept on instances is the library's business)."""
    if prov is None:
        prov = provenance(mag, unit, other)
    name = PROVENANCES[prov % len(PROVENANCES)]
    if classes is not None:
        classes.append(f"operand:{name}")
    if name == "fresh":
        return mag * unit

    def use(q):
        for f in (lambda: q == q, lambda: q == mag * unit, lambda: q + q, lambda: q < q,
                  lambda: q.in_unit(unit), lambda: other is not None and q.in_unit(other), lambda: hash(q), lambda: str(q)):
            try:
                f()
            except Exception:  # noqa -- whatever this raises is another clause's business
                pass
        return q

    if name == "used":
        return use(mag * unit)
    if name == "neg-of-used":
        return -use((-mag) * unit)
    if name == "abs-of-used":
        if mag >= 0:
            return abs(use((-mag) * unit))
        return -abs(use(mag * unit))
    if name == "pos-of-used":
        return +use(mag * unit)
    return use(mag * unit) * 1


def range_ok(sizes, mag, *units) -> bool:
    """False when a natural intermediate of the computation -- the magnitude or the size of
    any of the units expressed in root units -- leaves the range in which doubles keep
    full precision (such a case is counted inconclusive, never a failure; DESIGN 2.9)."""
    vals = []
    if mag is not None and Fraction(mag) != 0:
        vals.append(abs(Fraction(mag)))
    for u in units:
        s = sizes.unit_size(u, approx_mixed=True)
        if s is not None:
            vals.append(abs(s))
            if mag is not None and Fraction(mag) != 0:
                vals.append(abs(s * Fraction(mag)))
    return all(LO < v < HI for v in vals)


def partials_ok(sizes, mag, src, dst) -> bool:
    """A conversion is carried out as a chain of multiplications, one per pair of matched
    factors, in an order that is the planner's business.  Whatever the order, every partial
    product lies between |mag| x (all factors below one) and |mag| x (all factors above one),
    taking the sizes of the source's factors and the inverse sizes of the target's one by one.
    False when that interval reaches into the subnormals or towards overflow: the result may
    then have lost precision on the way although both ends are ordinary numbers (inconclusive)."""
    try:
        x = abs(Fraction(mag))
    except (ValueError, OverflowError, TypeError):
        return False
    if x == 0:
        return True
    lo = hi = x
    for u, sign in ((src, 1), (dst, -1)):
        p = sizes.unit_size(u.prefix * sizes.One, approx_mixed=True) if u.prefix.base else Fraction(1)
        steps = [p]
        for f, e in u.factors.items():
            if f is sizes.One or f not in sizes.size:
                continue
            steps.append(abs(sizes.size[f]) ** e)
        for st_ in steps:
            if st_ is None or st_ == 0:
                continue
            v = st_ if sign == 1 else 1 / st_
            if v < 1:
                lo *= v
            else:
                hi *= v
    return lo > Fraction(1, 10**295) and hi < Fraction(10) ** 295


def legs_ok(sizes, mag, *units) -> bool:
    """partials_ok for every leg of mag*units[0] -> units[1] -> units[2] ... (exact magnitudes)"""
    try:
        x = Fraction(mag)
    except (ValueError, OverflowError, TypeError):
        return False
    for a, b in zip(units, units[1:]):
        if not partials_ok(sizes, x, a, b):
            return False
        r = sizes.ratio(a, b)
        if r is None:
            return True
        x = x * r
    return True


def unit_degree(c: Ctx, u) -> int:
    return domain.degree(u, c.One)


def terms_str(terms) -> str:
    return "*".join(f"({p + '*' if p else ''}{u.replace(' ', '_')})**{e}" if e != 1 else f"{p + '*' if p else ''}{u.replace(' ', '_')}" for p, u, e in terms) or "One"


# ------------------------------------------------------------------ magnitudes


def magnitudes(allow_zero=True, allow_negative=True):
    return memo(("magnitudes", allow_zero, allow_negative), lambda: _magnitudes(allow_zero, allow_negative))


def _magnitudes(allow_zero=True, allow_negative=True):
    ints = st.integers(-10**6, 10**6) if allow_negative else st.integers(0, 10**6)
    small = st.sampled_from([1, 2, 3, 5, 7, 10, 12, 100, 1000] + ([-1, -3, -7] if allow_negative else []) + ([0] if allow_zero else []))
    pos = st.floats(min_value=1e-30, max_value=1e30, allow_nan=False, allow_infinity=False, width=64)
    floats = st.builds(lambda x, neg: -x if neg else x, pos, st.booleans()) if allow_negative else pos
    nice = st.sampled_from([0.5, 0.25, 2.5, 1e-3, 1e3, 1.5, 0.1, 3.14159, 1e6, 1e-6] + ([-2.5, -0.1] if allow_negative else []))
    decs = st.decimals(min_value=Decimal("-1e6") if allow_negative else Decimal("0.000001"), max_value=Decimal("1e6"), allow_nan=False, allow_infinity=False, places=6)
    out = st.one_of(
        st.builds(lambda v: {"t": "int", "v": v}, st.one_of(small, ints)),
        st.builds(lambda v: {"t": "float", "v": v}, st.one_of(nice, floats)),
        st.builds(lambda v: {"t": "dec", "v": str(v)}, decs),
    )
    if not allow_zero:
        out = out.filter(lambda m: Fraction(m["v"]) != 0 if m["t"] != "dec" else Decimal(m["v"]) != 0)
    return out


def mag_value(spec):
    t, v = spec["t"], spec["v"]
    if t == "int":
        if isinstance(v, bool) or not isinstance(v, int):
            raise ValueError(v)
        return v
    if t == "float":
        v = float(v)
        if v != v or v in (float("inf"), float("-inf")):
            raise ValueError(v)
        return v
    if t == "dec":
        d = Decimal(v)
        if not d.is_finite():
            raise ValueError(v)
        return d
    if t == "pow10":
        # an int too long to be written out in a case file (or, beyond 4300 digits, to be
        # rendered by str() at all): +-10**|v|
        if isinstance(v, bool) or not isinstance(v, int) or abs(v) > 20000:
            raise ValueError(v)
        return 10 ** abs(v) if v >= 0 else -(10 ** abs(v))
    raise ValueError(t)


def show(x) -> str:
    """repr() that survives ints beyond the interpreter's int-to-str digit limit"""
    try:
        return repr(x)
    except ValueError:
        mag = getattr(x, "magnitude", x)
        unit = getattr(x, "unit", None)
        if isinstance(mag, int):
            return f"<int of {len(hex(abs(mag))) * 1204 // 1000} digits>" + (f" {unit!r}" if unit is not None else "")
        return f"<{type(x).__name__} whose repr() raises>"


def mag_fraction(value) -> Fraction:
    return Fraction(value)


# ------------------------------------------------------------------ strategies

EXP_SRC = st.sampled_from([1, 1, 1, 2, 2, 3, -1, -1, -2, -3])
INT100 = st.integers(0, 99)
INT10 = st.integers(0, 9)
SIGN = st.sampled_from([1, 1, -1])
NTERMS = {n: st.integers(1, n) for n in (1, 2, 3, 4)}


@st.composite
def _prefix(draw, c: Ctx, p=0.3):
    r = draw(INT100)
    if r >= int(p * 100):
        return ""
    if r % 3 == 0:
        return pick(draw, "prefixes", c.prefixes)
    return pick(draw, "common_prefixes", c.common_prefixes)


@st.composite
def dok_pair(draw, c: Ctx, max_terms=3):
    src, signs, sk = _draw_src(draw, c, max_terms)
    return list(src), _draw_dst(draw, c, src, signs, sk, max_terms)


@st.composite
def dok_triple(draw, c: Ctx, max_terms=3):
    """(A, B, C): three D_ok units of one dimension under one sign vector"""
    src, signs, sk = _draw_src(draw, c, max_terms)
    return list(src), _draw_dst(draw, c, src, signs, sk, max_terms), _draw_dst(draw, c, src, signs, sk, max_terms)


def _draw_src(draw, c: Ctx, max_terms):
    signs = {i: draw(SIGN) for i in range(1, c.nd)}
    sk = tuple(signs[i] for i in range(1, c.nd))
    nterms = draw(NTERMS[max_terms])
    src = []
    for _ in range(nterms):
        e = draw(EXP_SRC)
        # draw until compatible (bounded); the pool is large for every sign vector
        pool = memo(("pool", sk, e > 0), lambda: [n for n in c.dok_names if compatible(c, n, e, signs)])
        if not pool:
            continue
        name = pick(draw, ("pool", sk, e > 0), pool)
        src.append([draw(PREFIX(c)), name, e])
    if not src:
        src = [["", "meter", 1]]
    return src, signs, sk


def _draw_dst(draw, c: Ctx, src, signs, sk, max_terms):
    dst = []
    for p, name, e in src:
        inf = c.info[name]
        dims = inf["dims"]
        mode = draw(INT10)
        nz = [(i, x) for i, x in enumerate(dims) if x]
        done = False
        if mode <= 1 and len(nz) == 1 and nz[0][1] > 1 and abs(e * nz[0][1]) <= 3:
            # power unit -> power of a fundamental unit (acre -> ft**2)
            i, x = nz[0]
            cands = memo(("fund", i, sk, e * x > 0), lambda: [n for n in c.fund_units.get(i, []) if compatible(c, n, e * x, signs)])
            if cands:
                dst.append([draw(PREFIX(c)), pick(draw, ("fund", i, sk, e * x > 0), cands), e * x])
                done = True
        elif mode == 2 and len(nz) == 1 and nz[0][1] == 1 and abs(e) in (2, 3):
            # power of a fundamental unit -> power unit (ft**2 -> acre)
            i, _ = nz[0]
            tgt = tuple(abs(e) if j == i else 0 for j in range(c.nd))
            cands = memo(("bydim", tgt, sk, e > 0), lambda: [n for n in c.dok_bydim.get(tgt, []) if compatible(c, n, 1 if e > 0 else -1, signs)])
            if cands:
                dst.append([draw(PREFIX(c)), pick(draw, ("bydim", tgt, sk, e > 0), cands), 1 if e > 0 else -1])
                done = True
        elif mode == 3 and len(nz) > 1 and len(dst) + len(nz) <= max_terms + 1 and all(abs(x * e) <= 3 for _, x in nz):
            # derived unit -> one unit per fundamental dimension (N -> lb*ft*s**-2)
            parts = []
            for i, x in nz:
                cands = memo(("fund", i, sk, e * x > 0), lambda: [n for n in c.fund_units.get(i, []) if compatible(c, n, e * x, signs)])
                if not cands:
                    parts = None
                    break
                parts.append([draw(PREFIX(c)), pick(draw, ("fund", i, sk, e * x > 0), cands), e * x])
            if parts:
                dst.extend(parts)
                done = True
        if not done:
            cands = memo(("bydim", dims, sk, e > 0), lambda: [n for n in c.dok_bydim[dims] if compatible(c, n, e, signs)])
            dst.append([draw(PREFIX(c)), pick(draw, ("bydim", dims, sk, e > 0), cands), e])
    return shuffle(draw, dst)


def shuffle(draw, items):
    """Fisher-Yates with memoised integer strategies (st.permutations re-validates each time)"""
    items = list(items)
    for i in range(len(items) - 1, 0, -1):
        j = draw(memo(("int", i), lambda: st.integers(0, i)))
        items[i], items[j] = items[j], items[i]
    return items


def PREFIX(c):
    return memo("prefix-strategy", lambda: _prefix(c))


@st.composite
def free_pair(draw, c: Ctx, max_terms=3):
    nterms = draw(NTERMS[max_terms])
    src, dst = [], []
    for _ in range(nterms):
        e = draw(EXP_SRC)
        name = pick(draw, "names", c.names)
        dims = c.info[name]["dims"]
        src.append([draw(PREFIX(c)), name, e])
        dst.append([draw(PREFIX(c)), pick(draw, ("alldim", dims), c.bydim[dims]), e])
    dst = shuffle(draw, dst)
    return list(src), list(dst)


@st.composite
def free_triple(draw, c: Ctx, max_terms=3):
    nterms = draw(NTERMS[max_terms])
    src, dst, dst2 = [], [], []
    for _ in range(nterms):
        e = draw(EXP_SRC)
        name = pick(draw, "names", c.names)
        dims = c.info[name]["dims"]
        src.append([draw(PREFIX(c)), name, e])
        dst.append([draw(PREFIX(c)), pick(draw, ("alldim", dims), c.bydim[dims]), e])
        dst2.append([draw(PREFIX(c)), pick(draw, ("alldim", dims), c.bydim[dims]), e])
    return list(src), shuffle(draw, dst), shuffle(draw, dst2)


def valid_terms(c: Ctx, terms) -> bool:
    if not isinstance(terms, list):
        return False
    for t in terms:
        if not (isinstance(t, list) and len(t) == 3):
            return False
        p, u, e = t
        if p not in c.snap.prefixes or u not in c.units or isinstance(e, bool) or not isinstance(e, int) or e == 0 or abs(e) > 9:
            return False
    return True
