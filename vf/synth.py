"""Synthetic, exactly-consistent unit systems in fresh worlds (DESIGN §4 C04/C05/C07/C08).

A world spec is JSON:
  {"fams": [{"dim": "length"|"time"|"mass", "sizes": [[num, den], ...],
             "edges": [[i, j, prefix, flip], ...]}, ...],        # unit i declared against unit j
   "ext":  [{"k": 2|3, "base": i, "r": [num, den], "also": j|null}]}   # area/volume units over fams[0]
Sizes are drawn first, declarations are *derived* from them, so every redundant
declaration is consistent (up to the float rounding of a written ratio) and the expected
value of every conversion is known by construction.  The Sizes solver is cross-checked
against the construction on every world.
"""
from __future__ import annotations

from fractions import Fraction
from typing import Any, Dict, List, Tuple

from hypothesis import strategies as st

from . import core, domain
from .sizes import Sizes
from .world import World

DIMS = ["length", "time", "mass"]
PFX = ["", "", "", "kilo", "milli", "mega", "micro"]
NUMS = [1, 2, 3, 4, 5, 6, 8, 10, 12, 16, 25, 100, 1000]
DENS = [1, 1, 1, 2, 4, 5, 8, 10]


def _rat():
    from .convgen import memo

    return memo("synth-rat", _rat0)


def _rat0():
    return st.builds(lambda n, d, s: [n * s[0], d * s[1]], st.sampled_from(NUMS), st.sampled_from(DENS), st.sampled_from([[1, 1], [1, 1], [1, 1000], [1000, 1]]))


def _int(lo, hi):
    from .convgen import memo

    return memo(("synth-int", lo, hi), lambda: st.integers(lo, hi))


ST_PFX = st.sampled_from(PFX)
ST_BOOL = st.booleans()
ST_K = st.sampled_from([2, 3])
ST_SIGN = st.sampled_from([1, 1, -1])
ST_E = st.sampled_from([1, 1, 2, 3])


@st.composite
def world_spec(draw, connected=True, prod=False, chainy=False, nunits=(2, 5), keep=7, min_ext=0, orphans=False, rings=False):
    fams = []
    twins = []
    echoes = []
    rat = _rat()
    for dim in DIMS:
        n = draw(_int(*nunits))
        sizes = [draw(rat) for _ in range(n)]
        for i in range(1, n):
            if draw(_int(0, 9)) < 2:
                # a near-twin of an earlier unit (1.0000000003 of it, like the survey foot and the
                # foot): whole numbers of one are almost, but not, whole numbers of the other
                j, k, e = draw(_int(0, i - 1)), draw(_int(1, 9)), draw(_int(6, 13))
                sizes[i] = [sizes[j][0] * (10**e + k), sizes[j][1] * 10**e]
                twins.append([f"{dim[0].upper()}{i}", f"{dim[0].upper()}{j}"])
        edges = []
        if rings and n >= 4 and draw(_int(0, 9)) < 4:
            # a ring of k units plus spurs hanging off ring members, declared in drawn order
            k = draw(_int(3, n - 1))
            for i in range(k):
                edges.append([(i + 1) % k, i, draw(ST_PFX), draw(ST_BOOL), draw(_int(0, 9)) < 2])
            for i in range(k, n):
                edges.append([i, draw(_int(0, k - 1)), draw(ST_PFX), draw(ST_BOOL), draw(_int(0, 9)) < 2])
            from .convgen import shuffle

            edges = shuffle(draw, edges)
            fams.append({"dim": dim, "sizes": sizes, "edges": edges})
            continue
        for i in range(1, n):
            if connected or draw(_int(0, 9)) < keep:
                parent = i - 1 if (chainy and draw(ST_BOOL)) else draw(_int(0, i - 1))
                edges.append([i, parent, draw(ST_PFX), draw(ST_BOOL), draw(_int(0, 9)) < 2])
        for _ in range(draw(_int(0, 3))):
            i = draw(_int(0, n - 1))
            j = draw(_int(0, n - 1))
            if i != j:
                edges.append([i, j, draw(ST_PFX), draw(ST_BOOL), draw(_int(0, 9)) < 2])
        if n >= 4 and draw(_int(0, 9)) < 3:
            # an "echo": the last two units are declared against two earlier ones with one and the
            # same, exactly representable ratio (4, 2.5, 0.25 ...) -- two unrelated declarations
            # whose ratios are equal numbers, possibly written in different numeric types
            R = _choose(draw, [[4, 1], [2, 1], [5, 2], [1, 4], [8, 1], [10, 1], [1, 2], [3, 1]])
            j, k = draw(_int(0, n - 3)), draw(_int(0, n - 3))
            edges = [e for e in edges if n - 1 not in (e[0], e[1]) and n - 2 not in (e[0], e[1])]
            sizes[n - 1] = [sizes[j][0] * R[0], sizes[j][1] * R[1]]
            sizes[n - 2] = [sizes[k][0] * R[0], sizes[k][1] * R[1]]
            edges.append([n - 2, k, "", False, False])
            edges.append([n - 1, j, "", False, False])
            tag = dim[0].upper()
            echoes.append([f"{tag}{n - 2}", f"{tag}{k}", f"{tag}{n - 1}", f"{tag}{j}"])
        fams.append({"dim": dim, "sizes": sizes, "edges": edges})
    ext = []
    n0 = len(fams[0]["sizes"])
    for _ in range(draw(_int(min_ext, 3))):
        also = draw(_int(-1, n0 - 1))
        item = {"k": draw(ST_K), "base": draw(_int(0, n0 - 1)), "r": draw(rat), "also": None if also < 0 else also}
        if orphans and draw(_int(0, 9)) < 5:
            # a named area/volume unit with no definition in terms of lengths; it may be
            # declared against an earlier unit of the same kind only
            item["orphan"] = True
            item["also"] = None
            peers = [i for i, x in enumerate(ext) if x.get("orphan") and x["k"] == item["k"]]
            item["orphan_to"] = _choose(draw, peers) if peers and draw(ST_BOOL) else None
        ext.append(item)
    spec = {"fams": fams, "ext": ext, "twins": twins, "echoes": echoes}
    # how the declarations are written: ratios as Decimal, the defined unit under a prefix
    # ((Kilo * a).equals(...)); both are ordinary uses of the public API
    # (all float, all Decimal, or "mixed": every other declaration Decimal, so that one route
    # passes through links of both types)
    sel = draw(_int(0, 9))
    spec["decimal_ratios"] = True if sel < 2 else ("mixed" if sel < 4 else False)
    spec["lhs_prefix"] = draw(_int(0, 9)) < 3
    if prod:
        n1 = len(fams[1]["sizes"])
        spec["prod"] = [
            {"num": draw(_int(0, n0 - 1)), "den": draw(_int(0, n1 - 1)), "r": draw(rat)} for _ in range(draw(_int(0, 2)))
        ]
    return spec


def unit_names(spec) -> Dict[str, Tuple[str, int]]:
    """name -> (dimension tag, power) for every unit of the spec"""
    out = {}
    for f in spec["fams"]:
        tag = f["dim"][0].upper()
        for i in range(len(f["sizes"])):
            out[f"{tag}{i}"] = (f["dim"], 1)
    for x, e in enumerate(spec["ext"]):
        out[f"X{x}"] = (spec["fams"][0]["dim"], e["k"])
    return out


def prod_names(spec):
    return [f"Y{y}" for y in range(len(spec.get("prod", [])))]


def _mag(r: Fraction, decimal=False):
    if r.denominator == 1 and not decimal:
        return int(r)
    if decimal:
        from decimal import Decimal, localcontext

        with localcontext() as ctx:
            ctx.prec = 40
            return Decimal(r.numerator) / Decimal(r.denominator)
    return float(r)


class SynWorld:
    def __init__(self, spec, modules=("si",), declare_now=True):
        """declare_now=False: units are defined, but declarations are only collected in
        self.plan (fixed order) and executed one by one with run_plan(i)  (C08)"""
        self.declare_now = declare_now
        self.plan = []
        self.spec = spec
        self.w = World(list(modules))
        m = self.w.m
        self.m = m
        self.units: Dict[str, Any] = {}
        self.size: Dict[str, Fraction] = {}
        self.pfx = {"": m.IdentityPrefix}
        for n in ("kilo", "milli", "mega", "micro"):
            self.pfx[n] = m.Prefix._by_name[n]
        self.declared = 0
        for f in spec["fams"]:
            dim = m.Dimension._by_name[f["dim"]]
            tag = f["dim"][0].upper()
            for i, (n, d) in enumerate(f["sizes"]):
                name = f"{tag}{i}"
                self.units[name] = m.Unit.define(dim, name, name)
                self.size[name] = Fraction(n, d)
        for f in spec["fams"]:
            tag = f["dim"][0].upper()
            for i, j, p, flip, *rest in f["edges"]:
                # an optional fifth element: the defined unit is written under a prefix,
                # (kilo * a).equals(...)
                self.declare(f"{tag}{i}", [[p, f"{tag}{j}", 1]], flip, lhs_prefixed=bool(rest and rest[0]))
        tag0 = spec["fams"][0]["dim"][0].upper()
        dim0 = m.Dimension._by_name[spec["fams"][0]["dim"]]
        for x, e in enumerate(spec["ext"]):
            name = f"X{x}"
            self.units[name] = m.Unit.define(dim0 ** e["k"], name, name)
            base = f"{tag0}{e['base']}"
            self.size[name] = Fraction(*e["r"]) * self.size[base] ** e["k"]
            if e.get("orphan"):
                if e.get("orphan_to") is not None:
                    self.declare(name, [["", f"X{e['orphan_to']}", 1]], False)
                continue
            self.declare(name, [["", base, e["k"]]], False)
            if e["also"] is not None and e["also"] != e["base"]:
                self.declare(name, [["", f"{tag0}{e['also']}", e["k"]]], False)

        dim1 = m.Dimension._by_name[spec["fams"][1]["dim"]]
        tag1 = spec["fams"][1]["dim"][0].upper()
        for y, e in enumerate(spec.get("prod", [])):
            name = f"Y{y}"
            self.units[name] = m.Unit.define(dim0 / dim1, name, name)
            num, den = f"{tag0}{e['num']}", f"{tag1}{e['den']}"
            self.size[name] = Fraction(*e["r"]) * self.size[num] / self.size[den]
            self.declare(name, [["", num, 1], ["", den, -1]], False)

    def prefix_value(self, p: str) -> Fraction:
        pr = self.pfx[p]
        return Fraction(pr.base) ** pr.exponent if pr.base else Fraction(1)

    def build(self, terms):
        r = self.m.One
        for p, u, e in terms:
            r = r * (self.pfx[p] * self.units[u]) ** e
        return r

    def terms_size(self, terms) -> Fraction:
        s = Fraction(1)
        for p, u, e in terms:
            s *= (self.prefix_value(p) * self.size[u]) ** e
        return s

    def declare(self, a: str, rhs_terms, flip: bool, force=False, factor=None, lhs_prefixed=False, retype=False) -> None:
        """a.equals(mag * rhs), or (flip, single plain rhs unit only) rhs.equals(mag * a)"""
        if not self.declare_now and not force:
            self.plan.append((a, rhs_terms, flip, lhs_prefixed))
            return
        if factor is not None:
            # a re-declaration with another ratio: the unit a changes its size
            self.size[a] = self.size[a] * factor
        rhs = self.build(rhs_terms)
        r = self.size[a] / self.terms_size(rhs_terms)
        dec = self.spec.get("decimal_ratios")
        dec = (self.declared % 2 == 0) if dec == "mixed" else bool(dec)
        written = self.__dict__.setdefault("_written_as", {})
        key = (a, repr(rhs_terms), flip)
        if retype and key in written:
            # the same equivalence stated again, the number written in the other numeric type
            dec = not written[key]
        written.setdefault(key, dec)
        single_plain = len(rhs_terms) == 1 and rhs_terms[0][0] == "" and rhs_terms[0][2] == 1
        lhs, lhs_factor = self.units[a], Fraction(1)
        if lhs_prefixed or (self.spec.get("lhs_prefix") and (self.declared % 3 == 1)):
            # the unit being defined is written with a prefix:  (kilo * a).equals(...)
            lhs, lhs_factor = self.pfx["kilo"] * self.units[a], Fraction(1000)
        if flip and single_plain:
            self.units[rhs_terms[0][1]].equals(_mag(1 / r, dec) * self.units[a])
        else:
            lhs.equals(_mag(r * lhs_factor, dec) * rhs)
        self.declared += 1


def run_plan(sw: "SynWorld", i: int, factor=None) -> None:
    a, rhs_terms, flip, lp = sw.plan[i]
    retype = factor is not None and factor == 1
    sw.declare(a, rhs_terms, flip, force=True, factor=None if retype else factor, lhs_prefixed=lp, retype=retype)


def valid_spec(spec) -> bool:
    try:
        if [f["dim"] for f in spec["fams"]] != DIMS:
            return False
        for f in spec["fams"]:
            n = len(f["sizes"])
            if n < 1 or n > 8:
                return False
            for s in f["sizes"]:
                if not (isinstance(s[0], int) and isinstance(s[1], int) and s[0] > 0 and s[1] > 0):
                    return False
            for i, j, p, flip, *rest in f["edges"]:
                if rest and not isinstance(rest[0], bool):
                    return False
                if not (0 <= i < n and 0 <= j < n and i != j and p in PFX and isinstance(flip, bool)):
                    return False
        n0 = len(spec["fams"][0]["sizes"])
        for e in spec["ext"]:
            if e["k"] not in (2, 3) or not (0 <= e["base"] < n0):
                return False
            if e["also"] is not None and not (0 <= e["also"] < n0):
                return False
            if not (e["r"][0] > 0 and e["r"][1] > 0):
                return False
            if e.get("orphan_to") is not None:
                j = e["orphan_to"]
                x = spec["ext"].index(e)
                if not (isinstance(j, int) and 0 <= j < x and spec["ext"][j].get("orphan") and spec["ext"][j]["k"] == e["k"]):
                    return False
        n1 = len(spec["fams"][1]["sizes"])
        for e in spec.get("prod", []):
            if not (0 <= e["num"] < n0 and 0 <= e["den"] < n1 and e["r"][0] > 0 and e["r"][1] > 0):
                return False
        return True
    except Exception:
        return False


# ------------------------------------------------------------------ queries inside D_ok


def _choose(draw, seq):
    return seq[draw(_int(0, len(seq) - 1))]


def draw_dok_query(draw, spec, magnitudes, third=False):
    from .convgen import shuffle

    names = unit_names(spec)
    twins = [t for t in spec.get("twins", []) if isinstance(t, list) and len(t) == 2 and t[0] in names and t[1] in names]
    if twins and draw(_int(0, 9)) < 3:
        # whole numbers of a unit in its near-twin, in either direction
        a, b = shuffle(draw, _choose(draw, twins))
        e = draw(ST_E) * draw(ST_SIGN)
        q = {"src": [["", a, e]], "dst": [["", b, e]], "mag": {"t": "int", "v": draw(_int(1, 1200)) * draw(ST_SIGN)}}
        if third:
            q["dst2"] = [[draw(ST_PFX), _choose(draw, sorted(n for n, dk in names.items() if dk == names[a])), e]]
        return q
    signs = {d: draw(ST_SIGN) for d in DIMS}
    by = {}
    for n, (d, k) in sorted(names.items()):
        by.setdefault((d, k), []).append(n)
    src = []
    for _ in range(draw(_int(1, 3))):
        cands = [n for n, (d, k) in sorted(names.items()) if k == 1 or signs[d] == 1]
        n = _choose(draw, cands)
        d, k = names[n]
        e = draw(ST_E) * signs[d]
        src.append([draw(ST_PFX), n, e])

    def target():
        dst = []
        for _, n, e in src:
            d, k = names[n]
            mode = draw(_int(0, 5))
            if k > 1 and mode <= 1 and abs(e * k) <= 6:
                dst.append([draw(ST_PFX), _choose(draw, by[(d, 1)]), e * k])
            elif k == 1 and mode == 2 and e > 0 and (d, e) in by:
                dst.append([draw(ST_PFX), _choose(draw, by[(d, e)]), 1])
            else:
                dst.append([draw(ST_PFX), _choose(draw, by[(d, k)]), e])
        return shuffle(draw, dst)

    q = {"src": src, "dst": target(), "mag": draw(magnitudes)}
    if third:
        q["dst2"] = target()
    return q


@st.composite
def dok_query(draw, spec, magnitudes):
    return draw_dok_query(draw, spec, magnitudes)


@st.composite
def world_case(draw, queries=12, connected=True, third=False):
    from . import convgen

    spec = draw(convgen.memo(("world_spec", connected), lambda: world_spec(connected=connected)))
    mags = convgen.magnitudes()
    qs = [draw_dok_query(draw, spec, mags, third) for _ in range(queries)]
    return {"g": "syn", "world": spec, "queries": qs}


def valid_query(sw: SynWorld, q) -> bool:
    try:
        for side in [q["src"], q["dst"]] + ([q["dst2"]] if "dst2" in q else []):
            for p, u, e in side:
                if p not in sw.pfx or u not in sw.units or not isinstance(e, int) or isinstance(e, bool) or e == 0 or abs(e) > 9:
                    return False
        return True
    except Exception:
        return False


def run_world_case(case, prop: str) -> core.Outcome:
    """C04 semantics over one synthetic world: every query's value and unit."""
    from . import convgen

    out = core.Outcome()
    try:
        spec = case["world"]
        queries = case["queries"]
        if not valid_spec(spec) or not isinstance(queries, list):
            raise ValueError
    except Exception:
        out.invalid = True
        return out
    sw = SynWorld(spec)
    m = sw.m
    CNF = sw.w.conversions.ConversionNotFound
    sz = Sizes(sw.w, m.One)
    out.classes.append("syn:world")
    nontrivial = 0
    for q in queries:
        if not valid_query(sw, q):
            continue
        try:
            mag = convgen.mag_value(q["mag"])
        except Exception:
            continue
        src, dst = sw.build(q["src"]), sw.build(q["dst"])
        if src.dimension is not dst.dimension:
            continue
        classes = domain.pair_classes(src, dst, m.One)
        if classes:
            out.classes.append("syn:outside-D_ok")  # only reachable through the shrinker
            continue
        want_ratio = sw.terms_size(q["src"]) / sw.terms_size(q["dst"])
        solved = sz.ratio(src, dst)
        if solved is None:
            raise AssertionError(f"oracle: solver found connected synthetic pair undetermined: {q}")
        if abs(solved / want_ratio - 1) > Fraction(1, 10**12):
            raise AssertionError(f"oracle: solver disagrees with construction: {float(solved)} vs {float(want_ratio)} for {q}")
        try:
            from . import convgen as _cg

            got = _cg.quantity(mag, src, dst, classes=out.classes).in_unit(dst)
        except CNF:
            out.classes.append("syn:notfound")
            continue
        except Exception as e:  # noqa
            out.classes.append(f"syn:raised:{type(e).__name__}")
            continue
        out.classes.append("syn:converted")
        if not convgen.range_ok(sz, mag, src, dst):
            out.inconclusive = "float-range"
            continue
        if got.unit is not dst:
            out.fail(f"{prop}:syn:unit", f"({mag!r}*{src}).in_unit({dst}) returned unit {got.unit}")
        want = Fraction(mag) * want_ratio
        deg = domain.degree(src, m.One) + domain.degree(dst, m.One)
        tol = 1e-12 * (deg + 1)
        try:
            gotf = Fraction(got.magnitude)
        except (ValueError, OverflowError, TypeError):
            out.inconclusive = "float-range"
            continue
        if want == 0:
            bad, rel = gotf != 0, 0.0
        else:
            if abs(want) < Fraction(1, 10**200) or abs(want) > Fraction(10) ** 200:
                out.inconclusive = "float-range"
                continue
            rel = abs(float(gotf / want) - 1)
            bad = rel > tol
        if bad:
            out.fail(f"{prop}:syn:value", f"synthetic world: ({mag!r}*{src}).in_unit({dst}) = {got.magnitude!r}, construction gives {float(want)!r} (rel {rel:.3g} > {tol:g})")
        if set(src.factors) != set(dst.factors):
            nontrivial += 1
    if nontrivial:
        out.nontrivial = "syn|" + core.case_hash(case)
        out.sample = {"synthetic_world": {"units": len(sw.units), "declarations": sw.declared}, "first_query": queries[0] if queries else None}
    return out
