"""standard_run: witnesses -> enumeration -> Hypothesis generation (sharded in the thorough
tier) -> bucket/known-finding resolution -> evidence."""
from __future__ import annotations

import json
import multiprocessing
import os
import sys
import time
from typing import Any, List

from . import core


def _shard_seed(seed: int, shard: int) -> int:
    # deterministic, independent of PYTHONHASHSEED
    return (seed * 1000003 + shard * 7919 + 17) % (2**31 - 1)


def _worker(args):
    modname, tier, seed, shard, examples = args
    import importlib

    mod = importlib.import_module(modname)
    col = core.Collector(mod.ID)
    if hasattr(mod, "setup"):
        mod.setup(tier)
    strat = mod.strategy(tier)
    core.drive(strat, mod.run_case, col, _shard_seed(seed, shard), examples)
    if hasattr(mod, "worker_post"):
        mod.worker_post(tier, col)
    if hasattr(mod, "shard_extra"):
        col.extra.update(mod.shard_extra())
    return col


def standard_run(mod, tier: str, seed: int, args=None) -> int:
    t0 = time.time()
    col = core.Collector(mod.ID)
    budget = mod.budget(tier)
    examples = budget.get("examples", 0)
    shards = budget.get("shards", 1)
    if args is not None and getattr(args, "examples", None):
        examples = args.examples
    if args is not None and getattr(args, "shards", None):
        shards = args.shards

    par = None
    if shards > 1 and examples:
        ctx = multiprocessing.get_context("fork")
        pool = ctx.Pool(min(shards, os.cpu_count() or 1))
        par = pool.map_async(_worker, [(mod.__name__, tier, seed, s, examples) for s in range(1, shards + 1)])

    if hasattr(mod, "setup"):
        mod.setup(tier)

    # witnesses of the open known findings are re-executed on every run
    witnesses = {}
    open_entries, _ = core.load_findings(mod.ID)
    for e in open_entries:
        w = e.get("witness")
        if w is None:
            continue
        out = mod.run_case(w)
        fails = any(core.finding_matches(e, f.bucket) for f in out.failures)
        witnesses[e["id"]] = fails
        # a witness failure in a bucket the entry does not list is an ordinary failure
        for f in out.failures:
            if not core.finding_matches(e, f.bucket):
                col.add(w, core.Outcome(failures=[f]))
                col.evaluations -= 1

    exhaustive = False
    if hasattr(mod, "enumerate_cases"):
        for case in mod.enumerate_cases(tier):
            if col.saturated():
                continue
            col.add(case, mod.run_case(case))
        exhaustive = bool(getattr(mod, "ENUMERATION_EXHAUSTIVE", False))

    # committed regression replays (cases that once failed) are always re-run
    for case in _regressions(mod.ID):
        col.add(case, mod.run_case(case))

    if examples and shards <= 1:
        strat = mod.strategy(tier)
        if strat is not None:
            core.drive(strat, mod.run_case, col, seed, examples)
    if hasattr(mod, "worker_post"):
        mod.worker_post(tier, col)
    if par is not None:
        for c in par.get():
            col.merge(c)
        pool.close()
        pool.join()
    if hasattr(mod, "shard_extra") and shards <= 1:
        col.extra.update(mod.shard_extra())
    if hasattr(mod, "post"):
        mod.post(tier, col)

    vac = None
    if hasattr(mod, "vacuity"):
        vac = mod.vacuity(col)
    return core.finish(mod, col, tier, seed, t0, witnesses=witnesses, exhaustive=exhaustive, vacuity=vac)


def _regressions(prop_id: str) -> List[Any]:
    d = os.path.join(core.ROOT, "regressions", prop_id)
    out = []
    if os.path.isdir(d):
        for fn in sorted(os.listdir(d)):
            if fn.endswith(".json"):
                with open(os.path.join(d, fn), encoding="utf-8") as fh:
                    out.append(json.load(fh)["case"])
    return out


def replay(mod, path: str) -> int:
    """Plain regression run of one saved case, bypassing Hypothesis."""
    with open(path, encoding="utf-8") as fh:
        rec = json.load(fh)
    if hasattr(mod, "setup"):
        mod.setup("quick")
    out = mod.run_case(rec["case"])
    open_entries, _ = core.load_findings(mod.ID)
    bad = [f for f in out.failures if not any(core.finding_matches(e, f.bucket) for e in open_entries)]
    for f in out.failures:
        print(f"replay: bucket={f.bucket} detail={f.detail}")
    if bad:
        print(f"VIOLATION property={mod.ID} replay={path}")
        return 1
    print(f"replay: no (unlisted) failure for {path}")
    return 0
