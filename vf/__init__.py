"""Property-based verification machinery for chrisguidry/measured (see ../DESIGN.md)."""
