"""D_ok: the shape-defined domain on which the conversion planner is required to be
right (DESIGN §2.7), and the shape classes K-PLAN-1..4 outside it.

Computed from ``unit.factors`` and the base units' dimension exponent vectors only --
never from the planner's behaviour.
"""
from __future__ import annotations

from typing import Any, Dict, List, Optional, Sequence, Tuple


def dimkind(exponents: Sequence[int]) -> str:
    ex = [e for e in exponents if e]
    if not ex:
        return "num"
    pos = [e for e in ex if e > 0]
    neg = [e for e in ex if e < 0]
    if pos and neg:
        return "mixed"
    if neg:
        return "neg"
    if len(ex) == 1 and ex[0] == 1:
        return "simple"
    if len(ex) == 1:
        return "power"
    return "multi"


def side_classes(unit: Any, One: Any, basedims: Optional[Dict[Any, Tuple[int, ...]]] = None) -> List[str]:
    """K-PLAN classes triggered by one side of a conversion ([] = inside D_ok)."""
    out = set()
    signs: Dict[int, int] = {}
    for f, e in unit.factors.items():
        if f is One:
            continue
        exps = basedims[f] if basedims is not None and f in basedims else f.dimension.exponents
        k = dimkind(exps)
        if k in ("mixed", "neg"):
            out.add("K-PLAN-1")
            continue
        if k == "num":
            if e < 0:
                out.add("K-PLAN-2")
            continue
        if k in ("power", "multi") and e < 0:
            out.add("K-PLAN-4")
        for i, x in enumerate(exps):
            if x:
                s = 1 if x * e > 0 else -1
                if signs.setdefault(i, s) != s:
                    out.add("K-PLAN-3")
    return sorted(out)


def pair_classes(src: Any, dst: Any, One: Any, basedims=None) -> List[str]:
    return sorted(set(side_classes(src, One, basedims)) | set(side_classes(dst, One, basedims)))


def in_dok(src: Any, dst: Any, One: Any, basedims=None) -> bool:
    return not pair_classes(src, dst, One, basedims)


def degree(unit: Any, One: Any) -> int:
    return sum(abs(e) for f, e in unit.factors.items() if f is not One)


def regroup_class(src: Any, dst: Any, One: Any, sizes: Any) -> List[str]:
    """K-PLAN-6: some base-unit factor of area/volume/derived dimension has *no* declared
    decomposition into units of fundamental dimensions (its root vector, solved from the
    declarations by vf.sizes, still contains a root unit of non-fundamental dimension), and
    the two sides group the dimension differently (the multisets of factor dimensions
    differ), so the planner would have to split or merge such a unit."""
    def undecomposable(f) -> bool:
        if dimkind(f.dimension.exponents) not in ("power", "multi", "mixed", "neg"):
            return False
        vec = sizes.rootvec.get(f)
        if vec is None:
            return True
        return any(dimkind(r.dimension.exponents) not in ("simple", "num") for r in vec)

    def dims(u):
        out = []
        for f, e in u.factors.items():
            if f is One:
                continue
            out.extend([tuple(f.dimension.exponents)] * abs(e) if e > 0 else [tuple(-x for x in f.dimension.exponents)] * abs(e))
        return sorted(out)

    facs = [f for u in (src, dst) for f in u.factors if f is not One]
    if any(undecomposable(f) for f in facs) and dims(src) != dims(dst):
        return ["K-PLAN-6"]
    return []
