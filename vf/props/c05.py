"""C05 -- conversion is an invertible linear scaling, independent of the route taken.

Metamorphic relations over triples (A, B, C) of equal-dimension units:
 (i)  everywhere (any shape, whenever the conversions return): conv(k*q) = k*conv(q),
      conv(0) = 0, sign preserved, q.in_unit(q.unit) keeps the magnitude;
 (ii) inside D_ok, on synthetic exactly-consistent worlds and on the pinned corpus:
      A->B->A is the identity and A->C->B equals A->B.
"""
from __future__ import annotations

import json
import os
from decimal import Decimal
from fractions import Fraction

from hypothesis import strategies as st

from .. import convgen, core, domain, synth
from ..sizes import Sizes

ID = "C05"
RULE = (
    "Hypothesis: triples (A,B,C) of equal-dimension units -- constructive D_ok triples over shipped units, "
    "unrestricted-shape triples, triples in synthetic exactly-consistent worlds, pinned-corpus pairs -- with "
    "int/float/Decimal magnitudes of both signs and zero and scale factors k (ints, floats, Decimals, 0, "
    "negatives). Relations: linearity/zero/sign/self-conversion everywhere the conversions return; round trip "
    "and route independence inside D_ok / synthetic / pinned. Non-trivial: k not in {0,1} and A,B,C pairwise "
    "different units; distinct = (A,B,C)."
)
ASSUMPTIONS = [
    "linearity and self-conversion are compared with rel 1e-9 (pure float/Decimal rounding); round trip and route independence with 1e-5 x total degree on shipped definitions and 1e-12 x (degree+1) on synthetic ones",
    "relations are only asserted when every conversion involved returned (the property's 'whenever the conversions involved succeed')",
]

C = None
PINNED = []


def setup(tier):
    global C, PINNED
    if C is not None:
        return
    C = convgen.ctx()
    path = os.path.join(core.ROOT, "corpus", "conv_pinned.jsonl")
    if os.path.exists(path):
        with open(path, encoding="utf-8") as fh:
            PINNED = [json.loads(l) for l in fh if l.strip()]


def budget(tier):
    return {"examples": 2500, "shards": 1} if tier == "quick" else {"examples": 10000, "shards": 16}


def strategy(tier):
    c = C
    DOK, FREE = convgen.dok_triple(c), convgen.free_triple(c)
    SYN = synth.world_case(queries=6, third=True)
    KS = convgen.magnitudes()

    @st.composite
    def mix(draw):
        sel = draw(convgen.INT100)
        if sel < 92:
            a, b, cc = draw(DOK if sel < 70 else FREE)
            return {"g": "dok" if sel < 70 else "free", "a": a, "b": b, "c": cc, "mag": draw(convgen.magnitudes()), "k": draw(KS)}
        w = draw(SYN)
        w["k"] = draw(KS)
        return w

    return mix()


def enumerate_cases(tier):
    out = []
    for p in PINNED:
        out.append({"g": "pinned", "a": p["src"], "b": p["dst"], "c": p["dst"], "mag": {"t": "float", "v": 2.5}, "k": {"t": "int", "v": -3}})
    return out


def _conv(q, unit):
    try:
        return q.in_unit(unit), None
    except Exception as e:  # noqa
        return None, e


def _rel(x, y):
    """relative difference of two numbers given as Fractions"""
    if x == y:
        return 0.0
    d = max(abs(x), abs(y))
    return float(abs(x - y) / d)


def _frac(v):
    try:
        return Fraction(v)
    except (ValueError, OverflowError, TypeError):
        return None


def relations(out, m, A, B, Cu, mag, k, where, strict, tol_rt, tol_route, prop="C05"):
    """where: bucket suffix (shape class); strict: round-trip/route clauses enforced as plain
    buckets (inside D_ok / syn / pinned) -- outside, they are filed under the shape class."""
    q = convgen.quantity(mag, A, B, classes=out.classes)
    ab, e1 = _conv(q, B)
    if ab is None:
        out.classes.append(f"A->B raised:{type(e1).__name__}")
        return False
    fab = _frac(ab.magnitude)
    if fab is None:
        out.inconclusive = "float-range"
        return False
    fm = Fraction(mag)
    if (fab == 0 and fm != 0) or (fab != 0 and not (convgen.LO < abs(fab) < convgen.HI)):
        # the converted magnitude itself leaves the range in which doubles keep full precision
        out.inconclusive = "float-range"
        return False
    # (i) zero, sign
    if fm == 0 and fab != 0:
        out.fail(f"{prop}:zero:{where}", f"(0*{A}).in_unit({B}) = {ab.magnitude!r}")
    if fm != 0 and fab != 0 and (fab > 0) != (fm > 0):
        out.fail(f"{prop}:sign:{where}", f"({mag!r}*{A}).in_unit({B}) = {ab.magnitude!r} changes sign")
    # (i) linearity
    kq = q * k
    kab, e2 = _conv(kq, B)
    if kab is not None:
        f1, f2 = _frac(kab.magnitude), _frac((ab * k).magnitude)
        if f1 is None or f2 is None:
            out.inconclusive = "float-range"
        elif _rel(f1, f2) > 1e-12 and not (abs(f1) < Fraction(1, 10**250) or abs(f2) < Fraction(1, 10**250)):
            out.fail(f"{prop}:linear:{where}", f"conv({k!r}*q) = {kab.magnitude!r} but {k!r}*conv(q) = {(ab * k).magnitude!r} for q = {mag!r} {A} -> {B}")
    # (i) conversion to the own unit
    aa, e3 = _conv(q, A)
    if aa is None:
        out.fail(f"{prop}:self:{type(e3).__name__}@{core.innermost_frame(e3)}", f"({mag!r}*{A}).in_unit({A}) raised {type(e3).__name__}: {e3}")
    else:
        f = _frac(aa.magnitude)
        if f is not None and _rel(f, fm) > 1e-12:
            out.fail(f"{prop}:self:value", f"({mag!r}*{A}).in_unit({A}) = {aa.magnitude!r}")
        if aa.unit is not A:
            out.fail(f"{prop}:self:unit", f"({mag!r}*{A}).in_unit({A}) has unit {aa.unit}")
    # (ii) round trip
    if fm != 0:
        aba, e4 = _conv(ab, A)
        if aba is not None:
            f = _frac(aba.magnitude)
            if f is None or fab == 0 or f == 0 or not (convgen.LO < abs(f) < convgen.HI):
                out.inconclusive = "float-range"
            elif _rel(f, fm) > tol_rt:
                out.fail(f"{prop}:roundtrip:{where}", f"{mag!r} {A} -> {B} -> {A} = {aba.magnitude!r} (rel {_rel(f, fm):.3g} > {tol_rt:g})")
            out.classes.append("roundtrip-checked" + ("" if strict else ":outside"))
        # (ii) route independence
        ac, e5 = _conv(q, Cu)
        fac = None if ac is None else _frac(ac.magnitude)
        if ac is not None and (fac is None or (fac == 0 and fm != 0) or (fac != 0 and not (convgen.LO < abs(fac) < convgen.HI))):
            out.inconclusive = "float-range"
            ac = None
        if ac is not None:
            acb, e6 = _conv(ac, B)
            if acb is not None:
                f = _frac(acb.magnitude)
                if f is None or fab == 0 or f == 0 or not (convgen.LO < abs(f) < convgen.HI):
                    out.inconclusive = "float-range"
                elif _rel(f, fab) > tol_route:
                    out.fail(f"{prop}:route:{where}", f"{mag!r} {A} -> {Cu} -> {B} = {acb.magnitude!r} but directly {ab.magnitude!r} (rel {_rel(f, fab):.3g} > {tol_route:g})")
                out.classes.append("route-checked" + ("" if strict else ":outside"))
    return True


def run_case(case) -> core.Outcome:
    out = core.Outcome()
    if isinstance(case, dict) and case.get("g") == "syn":
        return _run_syn(case)
    c = convgen.ctx()
    try:
        gen = case["g"]
        ta, tb, tc = case["a"], case["b"], case["c"]
        if not all(convgen.valid_terms(c, t) for t in (ta, tb, tc)):
            raise ValueError
        mag = convgen.mag_value(case["mag"])
        k = convgen.mag_value(case["k"])
    except Exception:
        out.invalid = True
        return out
    m = c.m
    A, B, Cu = convgen.build(c, ta), convgen.build(c, tb), convgen.build(c, tc)
    if A.dimension is not B.dimension or A.dimension is not Cu.dimension:
        out.invalid = True
        return out
    classes = sorted(set(domain.pair_classes(A, B, c.One)) | set(domain.pair_classes(A, Cu, c.One)))
    shape = "+".join(classes) if classes else "D_ok"
    if gen == "dok" and classes:
        raise AssertionError(f"harness: dok triple left D_ok: {case}")
    out.classes.append(f"{gen}:{shape}")
    det = c.sizes.determined(A, B) and c.sizes.determined(A, Cu)
    if not det:
        out.classes.append("undetermined-by-declarations")
    dA, dB, dC = (convgen.unit_degree(c, u) for u in (A, B, Cu))
    tol_rt = 1e-5 * max(2 * (dA + dB), 1)
    tol_route = 1e-5 * max(dA + dB + dA + dC + dC + dB, 1)
    where = "pinned" if gen == "pinned" else shape
    if not (convgen.range_ok(c.sizes, mag, A, B, Cu) and convgen.range_ok(c.sizes, Fraction(mag) * Fraction(k), A, B, Cu)):
        out.inconclusive = "float-range"
        return out
    if not (convgen.legs_ok(c.sizes, mag, A, B, A) and convgen.legs_ok(c.sizes, mag, A, Cu, B) and convgen.legs_ok(c.sizes, Fraction(mag) * Fraction(k), A, B)):
        # some partial product of one of the chained conversions may pass through the subnormals
        out.inconclusive = "float-range"
        out.classes.append("float-range:partial-products")
        return out
    ok = relations(out, m, A, B, Cu, mag, k, where, strict=not classes or gen == "pinned", tol_rt=tol_rt, tol_route=tol_route)
    if not det:
        # equal dimension but not linked by declarations (rad**2 vs rad**3): the round-trip /
        # route clauses presuppose a determined pair
        out.failures = [f for f in out.failures if ":roundtrip:" not in f.bucket and ":route:" not in f.bucket]
    fk = Fraction(k)
    if ok and fk not in (0, 1) and len({id(A), id(B), id(Cu)}) == 3:
        out.nontrivial = f"{A}|{B}|{Cu}"
        out.sample = {"A": convgen.terms_str(ta), "B": convgen.terms_str(tb), "C": convgen.terms_str(tc), "magnitude": repr(mag), "k": repr(k), "shape": shape}
    return out


def _run_syn(case) -> core.Outcome:
    out = core.Outcome()
    try:
        spec, queries = case["world"], case["queries"]
        k = convgen.mag_value(case["k"])
        if not synth.valid_spec(spec) or not isinstance(queries, list):
            raise ValueError
    except Exception:
        out.invalid = True
        return out
    sw = synth.SynWorld(spec)
    m = sw.m
    sz = Sizes(sw.w, m.One)
    out.classes.append("syn:world")
    n = 0
    for q in queries:
        if not synth.valid_query(sw, q) or "dst2" not in q:
            continue
        try:
            mag = convgen.mag_value(q["mag"])
        except Exception:
            continue
        A, B, Cu = sw.build(q["src"]), sw.build(q["dst"]), sw.build(q["dst2"])
        if A.dimension is not B.dimension or A.dimension is not Cu.dimension:
            continue
        if domain.pair_classes(A, B, m.One) or domain.pair_classes(A, Cu, m.One):
            continue
        if not (convgen.range_ok(sz, mag, A, B, Cu) and convgen.range_ok(sz, Fraction(mag) * Fraction(k), A, B, Cu)):
            out.inconclusive = "float-range"
            continue
        if not (convgen.legs_ok(sz, mag, A, B, A) and convgen.legs_ok(sz, mag, A, Cu, B) and convgen.legs_ok(sz, Fraction(mag) * Fraction(k), A, B)):
            out.inconclusive = "float-range"
            continue
        deg = sum(domain.degree(u, m.One) for u in (A, B, Cu))
        tol = 1e-12 * (2 * deg + 1)
        if relations(out, m, A, B, Cu, mag, k, "syn", True, tol, tol) and Fraction(k) not in (0, 1) and len({id(A), id(B), id(Cu)}) == 3:
            n += 1
    if n:
        out.nontrivial = "syn|" + core.case_hash(case)
        out.sample = {"synthetic_world_units": len(sw.units), "first_query": queries[0]}
    return out


def still_fails(case, bucket):
    return any(f.bucket == bucket for f in run_case(case).failures)


def vacuity(col):
    missing = [k for k in ("dok:D_ok", "roundtrip-checked", "route-checked") if not col.classes.get(k)]
    return missing or None
