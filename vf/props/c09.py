"""C09 -- shipped unit definitions are mutually consistent and connected to SI.

Exhaustive enumeration (finite configuration space): every intercepted equals()/scale()
declaration of every shipped module and every named unit.  Oracle: vf.sizes (exact
Fraction solution of a spanning forest; every other declaration closes a fundamental
cycle and yields an exact residual).
"""
from __future__ import annotations

from fractions import Fraction

from .. import core, domain
from ..sizes import Sizes, frac, prefix_value
from ..world import World, ALL_SYSTEMS

ID = "C09"
RULE = (
    "Exhaustive enumeration of (a) every intercepted Unit.equals declaration of all shipped modules: "
    "tree declarations define sizes, every other declaration closes a fundamental cycle and is "
    "checked by its exact residual (tolerance 1e-5 x exponent degree of the declared units, the larger of the two spellings); the same unordered "
    "pair declared twice is checked as a cycle of length 2; (b) every named unit of physical "
    "dimension: oracle connectivity to the coherent SI unit of its dimension and library conversion "
    "to and from it against the exact size ratio. Non-trivial: redundant (cycle-closing) "
    "declarations and named units other than the SI coherent units themselves; distinct = "
    "declaration index / unit name. In the thorough tier the enumeration is repeated with each "
    "shipped module imported first (import-order independence of the declared set)."
)
ASSUMPTIONS = [
    "a unit defined by a single declaration with a wrong constant is not detectable by mutual consistency (stated limit)",
    "coherent SI unit of a dimension = product of meter, second, kilogram, kelvin, coulomb, mole, candela (and bit for information) to the dimension's exponents",
]
ENUMERATION_EXHAUSTIVE = True

W = None
SZ = None
CASES = []
SI_BASE = ["one", "meter", "second", "kilogram", "kelvin", "coulomb", "mole", "candela", "bit"]


def _qstr(q):
    return f"{q.magnitude!r} {q.unit}"


def setup(tier):
    global W, SZ, CASES
    if W is not None:
        return
    W = World([ALL_SYSTEMS, "geometry", "physics"])
    SZ = Sizes(W, W.m.One)
    CASES = []
    for i, rec in enumerate(W.decls):
        CASES.append({"k": "decl", "i": i, "a": _qstr(rec["a"]), "b": _qstr(rec["b"])})
    for u in W.named_units():
        CASES.append({"k": "unit", "name": u.name})


def budget(tier):
    return {"examples": 0, "shards": 1}


def strategy(tier):
    return None


def enumerate_cases(tier):
    return list(CASES)


def _coherent(u):
    m = W.m
    dim = u.dimension
    fund = list(m.Dimension._fundamental)
    byname = m.Unit._by_name
    r = m.One
    # exponents has one more slot than there are fundamental dimensions (slot 0 = number)
    for d in fund:
        if d is m.Number:
            continue
        idx = d.exponents.index(1)
        e = dim.exponents[idx]
        if not e:
            continue
        base = {
            "length": "meter", "time": "second", "mass": "kilogram", "temperature": "kelvin",
            "charge": "coulomb", "amount of substance": "mole", "luminous intensity": "candela",
            "information": "bit",
        }[d.name]
        r = r * byname[base] ** e
    return r


def run_case(case) -> core.Outcome:
    out = core.Outcome()
    m = W.m
    try:
        kind = case["k"]
        if kind == "decl":
            rec = W.decls[case["i"]]
        elif kind == "unit":
            u = m.Unit._by_name[case["name"]]
        else:
            raise KeyError(kind)
    except Exception:
        out.invalid = True
        return out

    if kind == "decl":
        res = next((r for r in SZ.residuals if r["rec"] is rec), None)
        label = f"{rec['a'].unit} = {_qstr(rec['b'])}"
        if res is None:
            if any(r is rec for r in SZ.unsolved):
                out.classes.append("decl:unsolvable-by-oracle")
            else:
                out.classes.append("decl:tree")
            return out
        out.classes.append("decl:redundant")
        out.nontrivial = f"decl|{case['i']}|{label}"
        out.sample = {"declaration": label, "residual": float(res["residual"])}
        # "1e-5 relative per unit of exponent degree" of the two units the declaration links: they
        # have one dimension but may be spelt with different numbers of factors, the larger counts
        deg = max(domain.degree(rec["a"].unit, m.One), domain.degree(rec["b"].unit, m.One))
        if not res["consistent_roots"]:
            out.fail(f"C09:edge:dimensionally-inconsistent:{label}", f"{label} relates different root units")
        elif abs(res["residual"]) > Fraction(1, 10**5) * max(deg, 1):
            out.fail(
                f"C09:edge:{rec['a'].unit.name or rec['a'].unit}",
                f"declaration {label} disagrees with the other declarations by {float(res['residual']):+.3e} (tolerance 1e-5 x {deg})",
            )
        return out

    # named unit connectivity
    if u.dimension is m.Number:
        out.classes.append("unit:dimensionless")
        return out
    si = _coherent(u)
    is_scale = any(s["scale"] is u for s in W.scales)
    # dimensionless root units (radian) that a unit is defined with stay part of the target:
    # lumen = cd.sr is compared with cd.rad^2, not with a bare candela (the declarations
    # deliberately do not equate radian with one)
    rv = SZ.root_vector(u) or {}
    for r, k in sorted(rv.items(), key=lambda kv: kv[0].name or ""):
        if r.dimension is m.Number and k.denominator == 1:
            si = si * r ** int(k)
    if u is si:
        out.classes.append("unit:is-coherent-si")
        return out
    out.nontrivial = f"unit|{u.name}"
    out.sample = {"unit": u.name, "coherent_si": str(si)}
    classes = domain.pair_classes(u, si, m.One)
    out.classes.append("unit:" + ("D_ok" if not classes else "+".join(classes)))
    ratio = None if is_scale else SZ.ratio(u, si)
    if ratio is None and not is_scale:
        out.fail(f"C09:connect:oracle:{u.name}", f"{u.name} is not linked to {si} by any chain of declarations")
        return out
    deg = domain.degree(u, m.One) + domain.degree(si, m.One)
    tol = 1e-5 * max(deg, 1)
    for direction, (src, dst, want) in (
        ("to-si", (u, si, ratio)),
        ("from-si", (si, u, None if ratio is None else 1 / ratio)),
    ):
        try:
            got = (1 * src).in_unit(dst)
        except Exception as e:  # noqa
            out.fail(
                f"C09:connect:{direction}:{u.name}",
                f"(1*{src}).in_unit({dst}) raised {type(e).__name__} at {core.innermost_frame(e)}: {e}",
            )
            continue
        if got.unit is not dst:
            out.fail(f"C09:connect:{direction}:{u.name}", f"result unit {got.unit} is not {dst}")
        if want is not None:
            try:
                rel = abs(float(Fraction(got.magnitude) / want) - 1)
            except (ZeroDivisionError, OverflowError, ValueError):
                rel = float("inf")
            if rel > tol:
                out.fail(
                    f"C09:connect:{direction}:{u.name}",
                    f"(1*{src}).in_unit({dst}) = {got.magnitude!r}, declarations give {float(want)!r} (rel {rel:.3g} > {tol:g})",
                )
    return out


def still_fails(case, bucket):
    return any(f.bucket == bucket for f in run_case(case).failures)


def _decl_signature(world):
    sz = Sizes(world, world.m.One)
    decl = sorted(f"{r['a'].unit} = {_qstr(r['b'])}" for r in world.decls)
    sizes = sorted((u.name, str(v)) for u, v in sz.size.items() if u.name)
    return decl, sizes


def _under_decimal_context(col):
    """the shipped modules are imported while the thread's decimal context is a coarse one (5 digits,
    as an application doing money arithmetic might have set) and used after it has been restored:
    every named unit must still convert to and from its coherent SI unit by the declared numbers"""
    import decimal

    global W, SZ
    keep = (W, SZ)
    with decimal.localcontext() as ctx:
        ctx.prec = 5
        w3 = World([ALL_SYSTEMS, "geometry", "physics"])
    try:
        W, SZ = w3, Sizes(w3, w3.m.One)
        n = 0
        for u in w3.named_units():
            case = {"k": "unit", "name": u.name, "imported_under": "decimal prec=5"}
            out = run_case(case)
            for f in out.failures:
                # same bucket as in the default configuration (a unit that fails there fails here for
                # the same reason); the detail says which configuration this was
                f.detail = "[modules imported under decimal prec=5] " + f.detail
            out.classes = ["imported-under-decimal-prec5"]
            out.nontrivial = f"prec5|{u.name}" if out.nontrivial else None
            col.add(case, out)
            n += 1
        col.extra["units_checked_after_import_under_decimal_prec5"] = n
    finally:
        W, SZ = keep


def post(tier, col):
    # import-order independence of the declared set: every shipped module imported first
    from ..world import SHIPPED_MODULES

    ref = _decl_signature(W)
    first_modules = SHIPPED_MODULES if tier == "thorough" else ["us", "iec", "energy", "natural", "iso"]
    for mod in first_modules:
        w2 = World([mod, ALL_SYSTEMS, "geometry", "physics"])
        sig = _decl_signature(w2)
        out = core.Outcome(classes=["import-order"])
        out.nontrivial = f"order|{mod}"
        if sig[0] != ref[0]:
            diff = sorted(set(sig[0]) ^ set(ref[0]))[:6]
            out.fail(f"C09:import-order:declarations:{mod}", f"importing measured.{mod} first changes the declared set: {diff}")
        elif sig[1] != ref[1]:
            diff = sorted(set(sig[1]) ^ set(ref[1]))[:6]
            out.fail(f"C09:import-order:sizes:{mod}", f"importing measured.{mod} first changes solved sizes: {diff}")
        col.add({"k": "order", "first": mod}, out)
    _under_decimal_context(col)
    col.extra["declarations"] = len(W.decls)
    col.extra["scale_declarations"] = len(W.scales)
    col.extra["roots"] = [r.name for r in SZ.roots]
    col.extra["redundant_declarations"] = len(SZ.residuals)
    col.extra["largest_residuals"] = [
        {"declaration": f"{r['rec']['a'].unit} = {_qstr(r['rec']['b'])}", "residual": float(r["residual"])}
        for r in sorted(SZ.residuals, key=lambda r: -abs(r["residual"]))[:8]
    ]
    # duplicate declarations of the same unordered pair (equate() silently keeps the last)
    pairs = {}
    for i, rec in enumerate(W.decls):
        key = frozenset((id(rec["a"].unit.quantify().unit), id(rec["b"].unit.quantify().unit)))
        pairs.setdefault(key, []).append(i)
    col.extra["pairs_declared_more_than_once"] = sum(1 for v in pairs.values() if len(v) > 1)
