"""C06 -- arithmetic and comparison do not depend on the units operands are written in.

Each operand is re-expressed as an equal quantity in another convertible unit / prefix *by
the oracle* (exact size ratio, rounded once), never by the library.  The SI value (size
oracle) of a+b, a-b, a*b, a/b, a**n must equal the same operation on the operands' SI values,
for the original operands and for every combination of re-expressed ones; == and < must keep
their truth value away from ties.
"""
from __future__ import annotations

from fractions import Fraction

from hypothesis import strategies as st

from .. import convgen, core, domain

ID = "C06"
RULE = (
    "Hypothesis: (sum) quadruples A,A',B,B' of D_ok units of one dimension from the constructive generator "
    "(a in A, a' = a re-expressed in A' by the exact oracle, likewise b), operators + - == < on all four "
    "combinations; (prod) two independent pairs (A,A'),(B,B') of *any* shape (D_ok or not: * / ** involve no "
    "planner), operators * / **n; (info) information units with mixed SI/IEC prefixes. int/float/Decimal "
    "magnitudes. Non-trivial: at least one operand re-expressed with a different base unit (not only a "
    "prefix); distinct = (family, unit pair)."
)
ASSUMPTIONS = [
    "SI value of a quantity = magnitude x exact size of its unit in root units (vf.sizes)",
    "tolerances: * / ** rel 1e-12 (DESIGN 2.9 first said 1e-9; float rounding is 1e-16 and a maintainer's math.isclose default is 1e-9); + - == < over shipped definitions 1e-5 x total degree relative to the larger operand; mixed-base prefixes 1e-9",
    "a pair is a tie when the exact values differ by less than the applicable tolerance; ties get no order/equality clause",
    "ConversionNotFound in + - (one direction only is possible) is not a violation of this property",
]

C = None
INFO_UNITS = ["bit", "byte", "shannon", "nibble"]


def setup(tier):
    global C
    if C is None:
        C = convgen.ctx()


def budget(tier):
    return {"examples": 2500, "shards": 1} if tier == "quick" else {"examples": 10000, "shards": 16}


def strategy(tier):
    c = C
    TRI, DOKP, FREEP = convgen.dok_triple(c), convgen.dok_pair(c), convgen.free_pair(c)
    MAG = convgen.magnitudes()
    NZ = convgen.magnitudes(allow_zero=False)
    N = st.sampled_from([-3, -2, -1, 0, 1, 2, 3])
    info = [n for n in INFO_UNITS if n in c.units]
    INFO_T = st.builds(lambda p, u: [[p, u, 1]], st.sampled_from([""] + c.prefixes), st.sampled_from(info))

    @st.composite
    def mix(draw):
        sel = draw(convgen.INT100)
        if sel < 50:
            A, A2, B = draw(TRI)
            _, B2, _ = A, convgen._draw_dst(draw, c, A, *_signs_of(c, A)), None
            return {"f": "sum", "A": A, "A2": A2, "B": B, "B2": B2, "ma": draw(MAG), "mb": draw(MAG)}
        if sel < 88:
            A, A2 = draw(DOKP if sel < 70 else FREEP)
            B, B2 = draw(DOKP if sel % 2 else FREEP)
            return {"f": "prod", "A": A, "A2": A2, "B": B, "B2": B2, "ma": draw(MAG), "mb": draw(NZ), "n": draw(N)}
        return {"f": "info", "A": draw(INFO_T), "A2": draw(INFO_T), "B": draw(INFO_T), "B2": draw(INFO_T), "ma": draw(MAG), "mb": draw(NZ), "n": draw(N)}

    return mix()


def enumerate_cases(tier):
    """information units under SI and IEC prefixes, every pairing: byte is 2**3 bit, kilo is
    10**3 -- equal exponents of different bases, equal values under different spellings"""
    out = []
    units = [n for n in ("bit", "byte", "nibble") if n in C.units]
    pf = ["", "kilo", "kibi", "mega", "mebi"]
    k = 0
    for ua in units:
        for pa in pf:
            for ub in units:
                for pb in pf:
                    k += 1
                    out.append({"f": "info", "A": [[pa, ua, 1]], "A2": [["", "bit", 1]], "B": [[pb, ub, 1]], "B2": [["", "shannon" if "shannon" in C.units else "bit", 1]],
                                "ma": {"t": "int", "v": 1 + k % 3}, "mb": {"t": ["int", "float", "dec"][k % 3], "v": [125, 1000.0, "8"][k % 3]}, "n": 2})
    return out


def _signs_of(c, terms):
    """sign vector implied by a D_ok term list (for deriving one more target)"""
    signs = {}
    for p, name, e in terms:
        sg = 1 if e > 0 else -1
        for i, s in c.info[name]["need"].items():
            signs[i] = s * sg
    for i in range(1, c.nd):
        signs.setdefault(i, 1)
    return signs, tuple(signs[i] for i in range(1, c.nd)), 3


def _reexpress(c, mag, src, dst, approx):
    """the oracle's re-expression of mag*src in dst: exact ratio, rounded once"""
    a, b = c.sizes.unit_size(src, approx), c.sizes.unit_size(dst, approx)
    if a is None or b is None or not c.sizes.determined(src, dst):
        return None
    v = Fraction(mag) * a / b
    if v.denominator == 1 and isinstance(mag, int) and abs(v) < 10**15:
        return int(v)
    try:
        f = float(v)
    except OverflowError:
        return None
    if v != 0 and (f == 0 or f in (float("inf"), float("-inf"))):
        return None
    return f


def _si(c, q, approx):
    s = c.sizes.unit_size(q.unit, approx)
    if s is None:
        return None
    try:
        return Fraction(q.magnitude) * s
    except (ValueError, OverflowError, TypeError):
        return None


def _close(x, y, tol, scale=None):
    if x == y:
        return True
    d = scale if scale is not None else max(abs(x), abs(y))
    if d == 0:
        return False
    return abs(x - y) <= Fraction(tol) * d


def run_case(case) -> core.Outcome:
    out = core.Outcome()
    c = convgen.ctx()
    m = c.m
    try:
        fam = case["f"]
        terms = [case[k] for k in ("A", "A2", "B", "B2")]
        if fam not in ("sum", "prod", "info") or not all(convgen.valid_terms(c, t) for t in terms):
            raise ValueError
        ma, mb = convgen.mag_value(case["ma"]), convgen.mag_value(case["mb"])
        n = case.get("n", 1)
        if isinstance(n, bool) or not isinstance(n, int) or abs(n) > 4:
            raise ValueError
    except Exception:
        out.invalid = True
        return out
    A, A2, B, B2 = (convgen.build(c, t) for t in terms)
    if A.dimension is not A2.dimension or B.dimension is not B2.dimension:
        out.invalid = True
        return out
    if fam == "sum" and A.dimension is not B.dimension:
        out.invalid = True
        return out
    if fam in ("sum", "info") and not c.sizes.determined(A, B):
        # equal dimension but not linked by declarations (rad*furman vs sr*furman): the sum and
        # the comparisons have no expected value
        out.classes.append(f"{fam}:undetermined-or-out-of-range")
        return out
    approx = fam == "info"
    base_tol = 1e-12  # products, quotients and powers involve no conversion: float rounding only
    ma2, mb2 = _reexpress(c, ma, A, A2, approx), _reexpress(c, mb, B, B2, approx)
    if ma2 is None or mb2 is None:
        out.classes.append(f"{fam}:undetermined-or-out-of-range")
        return out
    if not (convgen.range_ok(c.sizes, ma, A, A2) and convgen.range_ok(c.sizes, mb, B, B2)):
        out.inconclusive = "float-range"
        return out
    for v in (ma, ma2, mb, mb2):
        fv = abs(Fraction(v))
        if fv != 0 and not (Fraction(1, 10**60) < fv < Fraction(10) ** 60):
            # magnitudes whose products / 4th powers would leave the double range
            out.inconclusive = "float-range"
            return out
    # the same values, obtained in different ways (fresh / already used / through unary operators)
    a, a2, b, b2 = ma * A, convgen.quantity(ma2, A2, A, classes=out.classes), mb * B, convgen.quantity(mb2, B2, B)
    sa, sb = _si(c, a, approx), _si(c, b, approx)
    if sa is None or sb is None:
        out.invalid = True
        return out
    classes = sorted(set(domain.pair_classes(A, A2, c.One)) | set(domain.pair_classes(B, B2, c.One)) | (set(domain.pair_classes(A, B, c.One)) if fam == "sum" else set()))
    shape = "+".join(classes) or "D_ok"
    out.classes.append(f"{fam}:{shape}")
    combos = [("a,b", a, b), ("a',b", a2, b), ("a,b'", a, b2), ("a',b'", a2, b2)]

    if fam in ("prod", "info"):
        for tag, x, y in combos:
            for op, fn, want in (
                ("mul", lambda: x * y, sa * sb),
                ("div", lambda: x / y, sa / sb if sb != 0 else None),
                ("pow", lambda: x**n, (sa**n if (sa != 0 or n > 0) else None) if n != 0 else Fraction(1)),
                # chained: multiply by b, divide by the equal quantity b' (prefixes must cancel)
                ("muldiv", lambda: (x * y) / (b2 if y is b else b), sa if sb != 0 else None),
            ):
                if want is None:
                    continue
                if op == "pow" and Fraction(x.magnitude) == 0 and n <= 0:
                    continue
                try:
                    r = fn()
                except Exception as e:  # noqa
                    out.fail(f"C06:{op}:raises:{type(e).__name__}@{core.innermost_frame(e)}", f"{op} of {x} , {y} (n={n}) raised {type(e).__name__}: {e}")
                    continue
                sr = _si(c, r, approx)
                if sr is None:
                    out.inconclusive = "float-range"
                    continue
                if want != 0 and not (convgen.LO < abs(want) < convgen.HI):
                    out.inconclusive = "float-range"
                    continue
                tol = base_tol * (abs(n) + 1 if op == "pow" else 1) * 4
                if not _close(sr, want, tol):
                    out.fail(f"C06:{op}:si-value", f"{op} [{tag}] of ({x}) and ({y}) (n={n}) = {r}: SI value {float(sr)!r}, expected {float(want)!r}")
    if fam in ("sum", "info"):
        dA, dB = convgen.unit_degree(c, A), convgen.unit_degree(c, B)
        dmax = max(convgen.unit_degree(c, u) for u in (A, A2, B, B2))
        tol = base_tol * 10 if fam == "info" else 1e-5 * max(4 * dmax, 1)
        scale = max(abs(sa), abs(sb))
        tie = abs(sa - sb) <= Fraction(tol) * scale * 2
        out.classes.append("tie" if tie else "ordered")
        where = shape
        for tag, x, y in combos:
            for op, fn, want in (("add", lambda: x + y, sa + sb), ("sub", lambda: x - y, sa - sb)):
                try:
                    r = fn()
                except Exception as e:  # noqa
                    out.classes.append(f"{op}:raised:{type(e).__name__}")
                    continue
                if r.unit is not x.unit:
                    out.fail(f"C06:{op}:unit", f"{op} [{tag}] result unit {r.unit} is not the left operand's {x.unit}")
                sr = _si(c, r, approx)
                if sr is None:
                    out.inconclusive = "float-range"
                    continue
                if not _close(sr, want, tol, scale):
                    out.fail(f"C06:{op}:si-value:{where}", f"{op} [{tag}] of ({x}) and ({y}) = {r}: SI value {float(sr)!r}, expected {float(want)!r} (tolerance {tol:g} x {float(scale)!r})")
            if not tie:
                for op, fn, want in (("eq", lambda: x == y, False), ("lt", lambda: x < y, sa < sb), ("gt", lambda: x > y, sa > sb)):
                    try:
                        r = fn()
                    except Exception as e:  # noqa
                        out.classes.append(f"{op}:raised:{type(e).__name__}")
                        continue
                    if r is not want:
                        out.fail(f"C06:{op}:truth:{where}", f"({x}) {op} ({y}) [{tag}] is {r!r}; exact SI values {float(sa)!r} vs {float(sb)!r} say {want!r}")
    if set(A.factors) != set(A2.factors) or set(B.factors) != set(B2.factors):
        out.nontrivial = f"{fam}|{A}|{A2}|{B}|{B2}"
        out.sample = {"family": fam, "a": f"{ma!r} {A}", "a_reexpressed": f"{ma2!r} {A2}", "b": f"{mb!r} {B}", "b_reexpressed": f"{mb2!r} {B2}", "n": n, "shape": shape}
    return out


def still_fails(case, bucket):
    return any(f.bucket == bucket for f in run_case(case).failures)


def vacuity(col):
    missing = [k for k in ("sum:D_ok", "ordered") if not col.classes.get(k)]
    return missing or None
