"""C03 -- quantity operations obey dimensional analysis; incommensurables are rejected."""
from __future__ import annotations

from decimal import Decimal
from fractions import Fraction

from hypothesis import strategies as st

from .. import convgen, core, domain, model

ID = "C03"
RULE = (
    "Hypothesis: operator applications a OP b with a = magnitude x compound/prefixed unit (1-3 terms of any "
    "registered offset-free unit), b = quantity | plain number | bare unit; OP in * / (also reflected: n*q, "
    "u*q, n/q), **n, root(n) (on constructed perfect powers), neg, pos, abs, + - and the comparisons; for "
    "+ - < <= > >= == in_unit the second unit is either an equal-dimension D_ok partner or a unit of a "
    "different dimension. Oracle: dimension exponent vectors of the group model; Decimal rule; left-unit "
    "rule; rejection rule. Non-trivial: operand kinds differ, or Decimal mixed with int/float, or a compound "
    "unit; distinct = (operator, operand kinds, magnitude types, dimension pair)."
)
ASSUMPTIONS = [
    "dimension vectors are computed by the free-abelian-group model from the base units' recorded dimensions",
    "zero magnitudes are excluded where the mathematical result is undefined (divisor, base of a negative power); a root of a negative magnitude may be refused by the number type (it is checked when answered)",
]

C = None
BINOPS = ["mul", "div", "rmul", "rdiv", "add", "sub", "lt", "le", "gt", "ge", "eq", "in_unit"]
UNOPS = ["pow", "root", "neg", "pos", "abs"]


def setup(tier):
    global C
    if C is None:
        C = convgen.ctx()


def budget(tier):
    return {"examples": 3000, "shards": 1} if tier == "quick" else {"examples": 20000, "shards": 16}


def strategy(tier):
    c = C
    DOK, FREE = convgen.dok_pair(c), convgen.free_pair(c)
    MAG, NZ, POS = convgen.magnitudes(), convgen.magnitudes(allow_zero=False), convgen.magnitudes(allow_zero=False, allow_negative=False)
    N = st.sampled_from([-4, -3, -2, -1, 0, 1, 2, 3, 4])
    DEG = st.sampled_from([-3, -2, 2, 3, 1, 4])
    OP = st.sampled_from(BINOPS + UNOPS)
    KIND = st.sampled_from(["q", "q", "q", "n", "u"])

    @st.composite
    def mix(draw):
        op = draw(OP)
        if op in UNOPS:
            a, _ = draw(FREE)
            n = draw(DEG if op == "root" else N)
            mag = draw(POS if op == "root" else (NZ if op == "pow" else MAG))
            if op == "root" and draw(convgen.INT10) < 3:
                mag = draw(NZ)   # negative radicands: answered or refused, see run_case
            elif op == "root" and draw(st.booleans()):
                # exact n-th powers (where a root comes out "round") in all three magnitude types
                b = draw(st.sampled_from([2, 3, 4, 10]))
                v = b ** abs(n)
                t = draw(st.sampled_from(["int", "float", "dec"]))
                mag = {"t": t, "v": v if t == "int" else (float(v) if t == "float" else str(v))}
            return {"op": op, "a": {"mag": mag, "terms": a}, "n": n}
        same = draw(convgen.INT10) < 5
        if op in ("mul", "div", "rmul", "rdiv"):
            a, _ = draw(FREE)
            b, _ = draw(FREE)
            kind = draw(KIND) if op in ("mul", "div", "rmul") else "n"
            return {"op": op, "a": {"mag": draw(NZ if op == "rdiv" else MAG), "terms": a}, "b": {"kind": kind, "mag": draw(NZ), "terms": b}}
        if same:
            a, b = draw(DOK)
        else:
            a, _ = draw(FREE)
            b, _ = draw(FREE)
        return {"op": op, "a": {"mag": draw(MAG), "terms": a}, "b": {"kind": "q", "mag": draw(MAG), "terms": b}}

    return mix()


def enumerate_cases(tier):
    """a small systematic grid for the unary operators: exact n-th powers and ordinary values in
    all three magnitude types over plain, prefixed and compound units"""
    out = []
    units = [[["", "meter", 1]], [["kilo", "gram", 1]], [["", "meter", 1], ["", "second", -2]], [["milli", "liter", 2]]]
    for terms in units:
        for t in ("int", "float", "dec"):
            for b in (2, 3, 10, 7):
                for n in (1, 2, 3, 4, -2, -3):
                    v = b ** abs(n)
                    mag = {"t": t, "v": v if t == "int" else (float(v) if t == "float" else str(v))}
                    out.append({"op": "root", "a": {"mag": mag, "terms": terms}, "n": n})
                    mag2 = {"t": t, "v": b if t == "int" else (b + 0.5 if t == "float" else str(b) + ".25")}
                    out.append({"op": "root", "a": {"mag": mag2, "terms": terms}, "n": n})
                    out.append({"op": "pow", "a": {"mag": mag2, "terms": terms}, "n": n})
                    neg = {"t": t, "v": -v if t == "int" else (-float(v) if t == "float" else "-" + str(v))}
                    out.append({"op": "root", "a": {"mag": neg, "terms": terms}, "n": n})
            for op in ("neg", "pos", "abs"):
                out.append({"op": op, "a": {"mag": {"t": t, "v": -3 if t == "int" else (-2.5 if t == "float" else "-1.25")}, "terms": terms}, "n": 1})
    # incommensurable operands whose magnitudes are ints of hundreds or thousands of digits
    # (beyond 4300 digits Python refuses to render them, which an error message must survive)
    sec = [["", "second", 1]]
    for digits in (400, 4299, 4300, 5000):
        for op in ("add", "sub", "lt", "le", "gt", "ge", "eq", "in_unit"):
            big, one = {"mag": {"t": "pow10", "v": digits}, "terms": units[0]}, {"kind": "q", "mag": {"t": "int", "v": 1}, "terms": sec}
            out.append({"op": op, "a": big, "b": one})
            out.append({"op": op, "a": {"mag": {"t": "int", "v": 1}, "terms": sec}, "b": dict(big, kind="q")})
            out.append({"op": op, "a": dict(big, mag={"t": "pow10", "v": -digits}), "b": dict(big, kind="q", terms=[["kilo", "gram", 1]])})
    # incommensurable operands one of which carries a prefix beyond the range of a float (prefixes
    # of both bases multiplied up: 2**480 x 10**216): prefix arithmetic is exponent arithmetic, and
    # refusing the operation must not depend on being able to compute that prefix's value
    extreme = [["yobi", "bit", 3], ["yobi", "byte", 3], ["yotta", "meter", 3], ["yotta", "gram", 3], ["yotta", "second", 3]]
    tiny = [["yocto", "meter", 3], ["yocto", "gram", 3], ["yocto", "second", 3], ["yobi", "bit", -3], ["yobi", "byte", -3]]
    for terms in (extreme, tiny):
        for op in ("add", "sub", "lt", "le", "gt", "ge", "eq", "in_unit"):
            for mag in ({"t": "int", "v": 1}, {"t": "float", "v": 2.5}, {"t": "dec", "v": "1.25"}):
                out.append({"op": op, "a": {"mag": mag, "terms": terms}, "b": {"kind": "q", "mag": {"t": "int", "v": 1}, "terms": sec}})
                out.append({"op": op, "a": {"mag": {"t": "int", "v": 1}, "terms": sec}, "b": {"kind": "q", "mag": mag, "terms": terms}})
    return out


def _mixed_terms(c, terms):
    """prefixes of more than one base occur anywhere in the expression (they may cancel in the
    model's normal form while the library is left with a base-changed float exponent)"""
    bases = set()
    for p, u, e in terms:
        if p and c.snap.prefixes[p].base:
            bases.add(c.snap.prefixes[p].base)
        bases.update(c.snap.structure[u][1].keys())
    return len(bases) > 1


def _dim(c, terms):
    return c.snap.model_dim(c.snap.model_terms(terms))


def run_case(case) -> core.Outcome:
    out = core.Outcome()
    c = convgen.ctx()
    m = c.m
    CNF = c.w.conversions.ConversionNotFound
    try:
        op = case["op"]
        if op not in BINOPS + UNOPS:
            raise ValueError
        ta = case["a"]["terms"]
        if not convgen.valid_terms(c, ta):
            raise ValueError
        ma = convgen.mag_value(case["a"]["mag"])
        if op in BINOPS:
            kb = case["b"]["kind"]
            tb = case["b"]["terms"]
            if kb not in ("q", "n", "u") or not convgen.valid_terms(c, tb):
                raise ValueError
            mb = convgen.mag_value(case["b"]["mag"])
        else:
            n = case["n"]
            if isinstance(n, bool) or not isinstance(n, int) or abs(n) > 4:
                raise ValueError
    except Exception:
        out.invalid = True
        return out
    for p, u, e in ta:
        if abs(e) > 3:
            out.invalid = True
            return out
    A = convgen.build(c, ta)
    da = _dim(c, ta)
    a = m.Quantity(ma, A)
    dec = isinstance(ma, Decimal)
    mtypes = type(ma).__name__

    def check_result(r, want_dim, tag, dec_expected):
        if not isinstance(r, m.Quantity):
            out.fail(f"C03:{tag}:not-a-quantity", f"{tag} returned {type(r).__name__}: {convgen.show(r)}")
            return
        if tuple(r.unit.dimension.exponents) != tuple(want_dim):
            out.fail(f"C03:dimension:{tag}", f"{tag}: result dimension {r.unit.dimension.exponents} != {tuple(want_dim)} for {case}")
        if dec_expected and not isinstance(r.magnitude, Decimal):
            out.fail(f"C03:decimal:{tag}", f"{tag}: an operand magnitude is Decimal but the result magnitude is {type(r.magnitude).__name__}")

    if op in UNOPS:
        out.classes.append(f"{op}:{mtypes}")
        try:
            if op == "pow":
                if Fraction(ma) == 0 and n < 0:
                    out.invalid = True
                    return out
                if abs(Fraction(ma)) > 10**12 or (Fraction(ma) != 0 and abs(Fraction(ma)) < Fraction(1, 10**12)):
                    out.inconclusive = "float-range"
                    return out
                # exponents of other numeric types are refused (TypeError); being refused must not
                # change what the integer exponent does afterwards
                for bad in (float(n), Decimal(n)):
                    try:
                        A**bad
                    except TypeError:
                        pass
                r = a**n
                check_result(r, tuple(x * n for x in da), "pow", dec)
            elif op == "root":
                if n == 0 or Fraction(ma) == 0:
                    out.invalid = True
                    return out
                powered = A**n  # a constructed perfect n-th power
                q = m.Quantity(ma, powered)
                if Fraction(ma) < 0:
                    # the root of a negative magnitude is the number arithmetic's to answer or to
                    # refuse (Decimal refuses, float answers with a complex number); an answer is
                    # held to the same clauses as any other
                    out.classes.append("root:negative-radicand")
                    try:
                        r = q.root(n)
                    except (ArithmeticError, ValueError, TypeError) as e:
                        if core.innermost_frame(e).split(".")[-1] not in ("_pow", "root"):
                            raise
                        out.classes.append("root:negative-radicand-refused")
                        r = None
                    if r is None:
                        return out
                else:
                    r = q.root(n)
                check_result(r, da, "root", dec)
                if isinstance(r, m.Quantity) and r.unit is not A and not _mixed_terms(c, ta):
                    out.fail("C03:root:unit", f"(x**{n}).root({n}) of {A} gives unit {r.unit}")
            elif op == "neg":
                check_result(-a, da, "neg", dec)
            elif op == "pos":
                check_result(+a, da, "pos", dec)
            else:
                r = abs(a)
                check_result(r, da, "abs", dec)
                if isinstance(r, m.Quantity) and r.magnitude < 0:
                    out.fail("C03:abs:negative", f"abs({convgen.show(a)}) = {convgen.show(r)}")
        except Exception as e:  # noqa
            mixed = _mixed_terms(c, ta)
            out.fail(f"C03:{op}:raises:{type(e).__name__}@{core.innermost_frame(e)}" + (":mixed-base" if mixed else ""), f"{op} on {convgen.show(a)} (n={case.get('n')}) raised {type(e).__name__}: {e}")
        if len(ta) > 1 or dec:
            out.nontrivial = f"{op}|{mtypes}|{da}|{case.get('n')}"
            out.sample = {"op": op, "a": f"{convgen.show(ma)} {convgen.terms_str(ta)}", "n": case.get("n")}
        return out

    B = convgen.build(c, tb)
    db = _dim(c, tb)
    anydec = dec or (isinstance(mb, Decimal) and kb != "u")
    if kb == "q":
        b = m.Quantity(mb, B)
    elif kb == "n":
        b = mb
    else:
        b = B
    out.classes.append(f"{op}:{kb}:{mtypes}-{type(mb).__name__}")
    num = tuple(0 for _ in da)
    dB = db if kb != "n" else num
    try:
        if op == "mul":
            check_result(a * b, tuple(x + y for x, y in zip(da, dB)), f"mul:{kb}", anydec)
        elif op == "rmul":
            check_result(b * a, tuple(x + y for x, y in zip(da, dB)), f"rmul:{kb}", anydec)
        elif op == "div":
            if kb != "u" and Fraction(mb) == 0:
                out.invalid = True
                return out
            check_result(a / b, tuple(x - y for x, y in zip(da, dB)), f"div:{kb}", anydec)
        elif op == "rdiv":
            if Fraction(ma) == 0:
                out.invalid = True
                return out
            check_result(mb / a, tuple(-x for x in da), "rtruediv:n", dec or isinstance(mb, Decimal))
        else:
            same_dim = tuple(da) == tuple(db)
            fn = {
                "add": lambda: a + b, "sub": lambda: a - b, "lt": lambda: a < b, "le": lambda: a <= b,
                "gt": lambda: a > b, "ge": lambda: a >= b, "eq": lambda: a == b, "in_unit": lambda: a.in_unit(B),
            }[op]
            out.classes.append(f"{op}:{'same-dimension' if same_dim else 'different-dimension'}")
            try:
                r = fn()
                raised = None
            except (TypeError, CNF) as e:
                r, raised = None, e
            if not same_dim:
                if op == "eq":
                    if raised is not None or r is not False:
                        out.fail("C03:reject:eq", f"{convgen.show(a)} == {convgen.show(b)} across dimensions gave {convgen.show(r)} / {raised!r}")
                elif raised is None:
                    out.fail(f"C03:reject:{op}", f"{op} across dimensions ({convgen.show(a)}, {convgen.show(b)}) returned {convgen.show(r)} instead of raising")
            elif raised is None and op in ("add", "sub"):
                if not isinstance(r, m.Quantity) or r.unit is not A:
                    out.fail(f"C03:left-unit:{op}", f"{op}: result {convgen.show(r)} does not carry the left operand's unit {A}")
                if isinstance(r, m.Quantity) and anydec and not isinstance(r.magnitude, Decimal):
                    out.fail(f"C03:decimal:{op}", f"{op}: an operand magnitude is Decimal but the result magnitude is {type(r.magnitude).__name__}")
            elif raised is None and op == "in_unit":
                if not isinstance(r, m.Quantity) or r.unit is not B:
                    out.fail("C03:in_unit:unit", f"in_unit result {convgen.show(r)} does not carry the requested unit")
            elif raised is None and op in ("lt", "le", "gt", "ge", "eq") and not isinstance(r, bool):
                out.fail(f"C03:compare:not-bool:{op}", f"{op} returned {convgen.show(r)}")
    except (AssertionError, RecursionError) as e:
        out.classes.append(f"raised:{type(e).__name__}")  # planner escapes are C07's subject
    except Exception as e:  # noqa
        out.fail(f"C03:{op}:raises:{type(e).__name__}@{core.innermost_frame(e)}", f"{op} on {convgen.show(a)}, {convgen.show(b)} raised {type(e).__name__}: {e}")
    if kb != "q" or (anydec and not (dec and isinstance(mb, Decimal))) or len(ta) > 1 or len(tb) > 1:
        out.nontrivial = f"{op}|{kb}|{mtypes}|{type(mb).__name__}|{da}|{db}"
        out.sample = {"op": op, "a": f"{convgen.show(ma)} {convgen.terms_str(ta)}", "b_kind": kb, "b": f"{convgen.show(mb)} {convgen.terms_str(tb)}"}
    return out


def still_fails(case, bucket):
    return any(f.bucket == bucket for f in run_case(case).failures)


def vacuity(col):
    need = ["add:different-dimension", "add:same-dimension", "eq:different-dimension", "lt:different-dimension"]
    missing = [k for k in need if not col.classes.get(k)]
    return missing or None
