"""C04 -- a conversion that returns a value returns the right value, in the asked unit.

Tier A: constructive D_ok pairs over all shipped units (vf.convgen.dok_pair) and synthetic
exactly-consistent unit systems (vf.synth); any wrong value / wrong unit is a violation.
Tier B: the pinned corpus of conversions outside D_ok that are right today.
Unrestricted shapes are also generated; failures there are bucketed by K-PLAN shape class.
Oracle: vf.sizes (exact Fractions solved from the intercepted declarations).
"""
from __future__ import annotations

import json
import os
from fractions import Fraction

from hypothesis import strategies as st

from .. import convgen, core, domain, synth

ID = "C04"
RULE = (
    "Hypothesis: (a) constructive D_ok pairs over all shipped offset-free named units: 1-3 terms per side, "
    "|exponent|<=3, 30% registered prefixes, target derived per term by same-dimension swap / power "
    "regrouping / expansion into fundamental-dimension units, shuffled; (b) unrestricted-shape pairs "
    "(counted per K-PLAN class); (c) synthetic worlds: fresh import, 3 families x 2-5 units with drawn "
    "rational sizes, random spanning tree + redundant consistent declarations, prefixed right-hand sides, "
    "area/volume units, 12 queries each; (d) the pinned corpus outside D_ok. int/float/Decimal magnitudes. "
    "Non-trivial: source and target differ in a base unit and the pair is not a single declared edge; "
    "distinct = canonical (source unit, target unit)."
)
ASSUMPTIONS = [
    "expected value = magnitude x size(source)/size(target) with sizes solved exactly from the intercepted declarations (vf.sizes); pairs not determined by declarations are not asserted on",
    "tolerance: rel 1e-5 x (degree(source)+degree(target)) on shipped definitions, rel 1e-12 x (steps+1) on the exactly-consistent synthetic ones (DESIGN 2.9)",
    "ConversionNotFound and other exceptions are not C04 failures (C07 owns them)",
]

C = None
PINNED = []


def setup(tier):
    global C, PINNED
    if C is not None:
        return
    C = convgen.ctx()
    path = os.path.join(core.ROOT, "corpus", "conv_pinned.jsonl")
    if os.path.exists(path):
        with open(path, encoding="utf-8") as fh:
            PINNED = [json.loads(l) for l in fh if l.strip()]


def budget(tier):
    return {"examples": 3000, "shards": 1} if tier == "quick" else {"examples": 12000, "shards": 16}


def strategy(tier):
    c = C
    DOK, FREE, SYN = convgen.dok_pair(c), convgen.free_pair(c), synth.world_case(queries=10)

    @st.composite
    def mix(draw):
        k = draw(convgen.INT100)
        if k < 72:
            pr = draw(DOK)
            return {"g": "dok", "src": pr[0], "dst": pr[1], "mag": draw(convgen.magnitudes())}
        if k < 92:
            pr = draw(FREE)
            return {"g": "free", "src": pr[0], "dst": pr[1], "mag": draw(convgen.magnitudes())}
        return draw(SYN)

    return mix()


def enumerate_cases(tier):
    return [dict(p, g="pinned") for p in PINNED]


def check_conversion(out, c, src_terms, dst_terms, mag, gen, prop="C04"):
    """shared with C05/C07: returns (src, dst, ratio, classes, got or None, exc or None)"""
    m = c.m
    src, dst = convgen.build(c, src_terms), convgen.build(c, dst_terms)
    if src.dimension is not dst.dimension:
        out.invalid = True
        return None
    ratio = c.sizes.ratio(src, dst)
    classes = domain.pair_classes(src, dst, c.One)
    q = convgen.quantity(mag, src, dst, classes=out.classes)
    try:
        got = q.in_unit(dst)
        exc = None
    except Exception as e:  # noqa
        got, exc = None, e
    return src, dst, ratio, classes, got, exc


def run_case(case) -> core.Outcome:
    out = core.Outcome()
    if isinstance(case, dict) and case.get("g") == "syn":
        return synth.run_world_case(case, "C04")
    c = convgen.ctx()
    try:
        gen = case["g"]
        src_terms, dst_terms = case["src"], case["dst"]
        if not (convgen.valid_terms(c, src_terms) and convgen.valid_terms(c, dst_terms)):
            raise ValueError
        mag = convgen.mag_value(case["mag"])
    except Exception:
        out.invalid = True
        return out
    r = check_conversion(out, c, src_terms, dst_terms, mag, gen)
    if r is None:
        return out
    src, dst, ratio, classes, got, exc = r
    shape = "+".join(classes) if classes else "D_ok"
    out.classes.append(f"{gen}:{shape}")
    if gen == "dok" and classes:
        raise AssertionError(f"harness: dok generator left D_ok: {case} {classes}")
    if ratio is None:
        out.classes.append("undetermined-by-declarations")
        return out
    if exc is not None:
        out.classes.append(f"raised:{type(exc).__name__}")
        return out
    where = "pinned" if gen == "pinned" else shape
    if not convgen.range_ok(c.sizes, mag, src, dst) or not convgen.partials_ok(c.sizes, mag, src, dst):
        out.inconclusive = "float-range"
        return out
    if got.unit is not dst:
        out.fail(f"C04:unit:{where}", f"({mag!r}*{src}).in_unit({dst}) returned unit {got.unit}")
    want = Fraction(mag) * ratio
    deg = convgen.unit_degree(c, src) + convgen.unit_degree(c, dst)
    tol = 1e-5 * max(deg, 1)
    try:
        gotf = Fraction(got.magnitude)
    except (ValueError, OverflowError, TypeError):
        gotf = None
    if gotf is None or (want != 0 and (abs(want) > Fraction(10) ** 200 or abs(want) < Fraction(1, 10**200))):
        # overflow / underflow of the float computation (inf/nan magnitude, or an exact
        # result outside the range where doubles keep full precision)
        out.inconclusive = "float-range"
        return out
    if want == 0:
        bad = gotf != 0
        rel = float("inf") if bad else 0.0
    else:
        try:
            rel = abs(float(gotf / want) - 1) if gotf is not None else float("inf")
        except OverflowError:
            rel = float("inf")
        bad = rel > tol
    if bad:
        out.fail(
            f"C04:value:{where}",
            f"({mag!r}*{src}).in_unit({dst}) = {got.magnitude!r}; declarations give {float(want)!r} (rel {rel:.3g} > {tol:g}) [{shape}]",
        )
    # non-triviality
    if set(src.factors) != set(dst.factors):
        direct = dst in c.w.conversions._ratios.get(src, {})
        if not direct or src.prefix is not c.m.IdentityPrefix or dst.prefix is not c.m.IdentityPrefix:
            out.nontrivial = f"{src}|{dst}"
            out.sample = {"convert": f"{mag!r} {convgen.terms_str(src_terms)}", "to": convgen.terms_str(dst_terms), "got": repr(got.magnitude), "exact": float(want), "shape": shape}
    return out


def still_fails(case, bucket):
    return any(f.bucket == bucket for f in run_case(case).failures)


def vacuity(col):
    missing = [k for k in ("dok:D_ok",) if not col.classes.get(k)]
    return missing or None
