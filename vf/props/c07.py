"""C07 -- impossible conversions fail only with ConversionNotFound, with or without -O.

(i)  in-process: for generated pairs of equal dimension (D_ok pairs, unrestricted shapes,
     pinned corpus, synthetic worlds that are deliberately disconnected / partially connected /
     contain units defined in terms of products, and long definition chains) the only exception
     that may escape in_unit/+/- is ConversionNotFound, == returns a bool, ordering returns a
     bool or raises TypeError.
(ii) differential: the same case list is executed by ``python`` and ``python -O`` in two fresh
     subprocesses; outcome records must be identical.
"""
from __future__ import annotations

import json
import os
import subprocess
import sys
import tempfile

from hypothesis import strategies as st

from .. import convgen, core, synth
from . import c07_exec

ID = "C07"
RULE = (
    "Hypothesis: equal-dimension pairs (constructive D_ok, unrestricted shapes, pinned corpus) over shipped "
    "units and queries in synthetic worlds whose families' spanning trees are randomly cut (disconnected / "
    "partially connected), with area/volume units and units defined against quotients of two families; plus "
    "definition chains of 50-1500 units in the thorough tier (2 short ones in quick). Each pair is exercised "
    "through in_unit, +, -, ==, <, sorted. Every case is executed in-process and by python and python -O in "
    "fresh subprocesses. Non-trivial: the pair is not linked by the declarations (oracle graph) or only "
    "partially; distinct = case hash."
)
ASSUMPTIONS = [
    "allowed outcomes: in_unit/+/- return or raise ConversionNotFound; == returns a bool; < and sorted return or raise TypeError",
    "default vs -O records are compared for exact equality (exception class and innermost frame, or repr of magnitude and str of unit)",
]

C = None
PINNED = []
CASES = []  # (case, in-process record) of this process, for the differential


def setup(tier):
    global C, PINNED
    if C is not None:
        return
    C = convgen.ctx()
    path = os.path.join(core.ROOT, "corpus", "conv_pinned.jsonl")
    if os.path.exists(path):
        with open(path, encoding="utf-8") as fh:
            PINNED = [json.loads(l) for l in fh if l.strip()]


def budget(tier):
    return {"examples": 900, "shards": 1} if tier == "quick" else {"examples": 5000, "shards": 16}


def strategy(tier):
    c = C
    DOK, FREE = convgen.dok_pair(c), convgen.free_pair(c)
    SPEC = synth.world_spec(connected=False, prod=True, orphans=True, min_ext=1)
    MAG = convgen.magnitudes()
    CHAIN = st.integers(50, 1500) if tier == "thorough" else st.integers(20, 120)

    @st.composite
    def free_query(draw, spec):
        """any equal-dimension pair of synthetic units, including the product-defined ones"""
        names = synth.unit_names(spec)
        allnames = sorted(names) + synth.prod_names(spec)
        groups = {}
        for n in allnames:
            groups.setdefault(names.get(n, ("speed", 1)), []).append(n)
        src, dst = [], []
        for _ in range(draw(synth._int(1, 2))):
            n = synth._choose(draw, allnames)
            e = draw(convgen.EXP_SRC)
            src.append([draw(synth.ST_PFX), n, e])
            dst.append([draw(synth.ST_PFX), synth._choose(draw, groups[names.get(n, ("speed", 1))]), e])
        return {"src": src, "dst": convgen.shuffle(draw, dst), "mag": draw(MAG)}

    PARTS = {4: [[2, 2], [3, 1], [2, 1, 1], [1, 1, 1, 1]], 5: [[3, 2], [2, 2, 1], [3, 1, 1]], 6: [[3, 3], [2, 2, 2], [3, 2, 1]]}

    @st.composite
    def cross_query(draw, spec):
        """equal total dimension, but grouped differently across the terms of the two sides:
        area.area <-> volume.length, (2,2,2) <-> (3,3) ... over the first family and its
        area/volume units (with or without definitions in terms of lengths)"""
        names = synth.unit_names(spec)
        d0 = spec["fams"][0]["dim"]
        by = {}
        for n, (d, k) in sorted(names.items()):
            if d == d0:
                by.setdefault(k, []).append(n)
        total = draw(st.sampled_from([4, 5, 6]))
        sides = []
        for _ in range(2):
            part = synth._choose(draw, PARTS[total])
            terms = {}
            for k in part:
                if k not in by:
                    k_units = [(1, n) for n in by[1]]
                    for _i in range(k):
                        kk, n = synth._choose(draw, k_units)
                        terms[n] = terms.get(n, 0) + 1
                else:
                    n = synth._choose(draw, by[k])
                    terms[n] = terms.get(n, 0) + 1
            sides.append([["", n, e] for n, e in sorted(terms.items())])
        return {"src": sides[0], "dst": sides[1], "mag": draw(MAG)}

    @st.composite
    def mix(draw):
        sel = draw(convgen.INT100)
        if sel < 45:
            a, b = draw(DOK)
            return {"g": "dok", "src": a, "dst": b, "mag": draw(MAG), "mag2": draw(MAG)}
        if sel < 80:
            a, b = draw(FREE)
            return {"g": "free", "src": a, "dst": b, "mag": draw(MAG), "mag2": draw(MAG)}
        if sel < 99:
            spec = draw(SPEC)
            qs = []
            for _ in range(8):
                sel2 = draw(convgen.INT10)
                if sel2 < 5:
                    qs.append(synth.draw_dok_query(draw, spec, MAG))
                elif sel2 < 8:
                    qs.append(draw(free_query(spec)))
                else:
                    qs.append(draw(cross_query(spec)))
            return {"g": "syn", "world": spec, "queries": qs}
        return {"g": "chain", "n": draw(CHAIN)}

    return mix()


def enumerate_cases(tier):
    out = [{"g": "pinned", "src": p["src"], "dst": p["dst"], "mag": p["mag"], "mag2": {"t": "float", "v": 1.5}} for p in PINNED]
    scales = ["kelvin", "celsius", "fahrenheit", "Rankine"]
    for i, a in enumerate(scales):
        for j, b in enumerate(scales):
            if a != b:
                for k, (pa, pb) in enumerate((("", ""), ("milli", ""), ("", "kilo"))):
                    mag = [{"t": "int", "v": 0}, {"t": "float", "v": 100.0}, {"t": "dec", "v": "-40.5"}][(i + j + k) % 3]
                    out.append({"g": "scales", "a": a, "pa": pa, "b": b, "pb": pb, "mag": mag, "mag2": {"t": "float", "v": 300.0}})
    for mag in ({"t": "int", "v": 3}, {"t": "pow10", "v": 400}, {"t": "pow10", "v": 4300}, {"t": "pow10", "v": -6000}, {"t": "float", "v": 1e300}, {"t": "dec", "v": "1E+5000"}):
        for compound in (False, True):
            out.append({"g": "unlinked", "mag": mag, "mag2": {"t": "int", "v": 2}, "compound": compound})
    for mag in ({"t": "int", "v": 3}, {"t": "float", "v": 2.5}, {"t": "dec", "v": "-40.5"}):
        for compound in (False, True):
            out.append({"g": "unlinked", "mag": mag, "mag2": {"t": "int", "v": 2}, "compound": compound, "mixed": True})
    out += [{"g": "chain", "n": n} for n in ((30, 200, 700) if tier == "quick" else (30, 200, 399, 400, 700, 880, 1200))]
    return out


ALLOWED = {
    "in_unit": {"ConversionNotFound"},
    "add": {"ConversionNotFound"},
    "sub": {"ConversionNotFound"},
    "eq": set(),
    "lt": {"TypeError"},
    "le": {"TypeError"},
    "gt": {"TypeError"},
    "ne": set(),
    "sorted": {"TypeError"},
}


def judge(out, rec, gen):
    nontrivial = False
    for pair in rec.get("pairs", []):
        shape = pair["shape"]
        where = "pinned" if gen == "pinned" else shape
        out.classes.append(f"{gen}:{shape}")
        if not pair["determined"]:
            nontrivial = True
            out.classes.append("not-linked-by-declarations")
        for op, r in pair["ops"].items():
            kind = op.split(":")[0]
            if r[0] == "exc":
                out.classes.append(f"{op}:{r[1]}")
                if r[1] not in ALLOWED[kind]:
                    out.fail(f"C07:escape:{r[1]}@{r[2]}:{where}", f"{op} on {pair['label']} raised {r[1]} at {r[2]} [{shape}]")
            elif kind in ("eq", "ne") and r[0] != "b":
                out.fail(f"C07:eq-not-bool:{where}", f"{op} on {pair['label']} returned {r}")
            elif kind in ("eq", "ne") and shape == "unlinked" and r[1] != (kind == "ne"):
                out.fail(f"C07:impossible-pair-compares-equal:{where}", f"{op} on {pair['label']} returned {r[1]} although no conversion connects the units")
    return nontrivial


def run_case(case) -> core.Outcome:
    out = core.Outcome()
    try:
        rec = c07_exec.execute(case)
    except RecursionError:
        raise
    if rec.get("invalid"):
        out.invalid = True
        return out
    if judge(out, rec, case.get("g")):
        out.nontrivial = core.case_hash(case)
        first = rec["pairs"][0]
        out.sample = {"generator": case.get("g"), "pair": first["label"], "outcomes": {k: v[:2] for k, v in first["ops"].items()}}
    CASES.append(case)
    return out


def still_fails(case, bucket):
    if bucket.startswith("C07:O-"):
        return bucket in {f.bucket for _, f in _differential([case])}
    return any(f.bucket == bucket for f in run_case(case).failures)


def _differential(cases):
    """runs the case list under python and python -O; returns failures"""
    fails = []
    if not cases:
        return fails
    d = tempfile.mkdtemp(prefix="vf_c07_")
    try:
        inp = os.path.join(d, "cases.json")
        with open(inp, "w", encoding="utf-8") as fh:
            json.dump(cases, fh)
        env = dict(os.environ, PYTHONHASHSEED="0", PYTHONPATH=core.ROOT + os.pathsep + os.environ.get("PYTHONPATH", ""))
        procs = []
        for flag, name in (([], "default"), (["-O"], "opt")):
            outp = os.path.join(d, name + ".json")
            procs.append((subprocess.Popen([sys.executable] + flag + ["-m", "vf.props.c07_exec", inp, outp], env=env, cwd=core.ROOT,
                                           stdout=subprocess.PIPE, stderr=subprocess.STDOUT), outp, name))
        recs = {}
        for p, outp, name in procs:
            log, _ = p.communicate()
            if p.returncode != 0:
                raise RuntimeError(f"c07_exec ({name}) exited {p.returncode}: {log.decode(errors='replace')[-2000:]}")
            with open(outp, encoding="utf-8") as fh:
                recs[name] = json.load(fh)
    finally:
        import shutil

        shutil.rmtree(d, ignore_errors=True)
    for case, r1, r2 in zip(cases, recs["default"], recs["opt"]):
        if r1 == r2:
            continue
        for p1, p2 in zip(r1.get("pairs", []), r2.get("pairs", [])):
            for op in p1["ops"]:
                a, b = p1["ops"][op], p2["ops"].get(op)
                if a == b:
                    continue
                where = "pinned" if case.get("g") == "pinned" else p1["shape"]
                if a[0] == "exc" and a[1] == "AssertionError":
                    bucket = f"C07:O-divergence:asserting@{a[2]}:{where}"
                else:
                    bucket = f"C07:O-divergence:clean-case:{where}"
                fails.append((case, core.Failure(bucket, f"{op} on {p1['label']}: default {a} but -O {b} [{p1['shape']}]")))
    return fails


def worker_post(tier, col):
    """differential run over every case this process executed"""
    global CASES
    cases, CASES = CASES, []
    res = _differential(cases)
    col.extra["cases_run_under_python_and_python_O"] = col.extra.get("cases_run_under_python_and_python_O", 0) + len(cases)
    for case, f in res:
        o = core.Outcome(failures=[f])
        col.add(case, o)
        col.evaluations -= 1


def vacuity(col):
    missing = [k for k in ("dok:D_ok", "not-linked-by-declarations", "in_unit:ConversionNotFound") if not col.classes.get(k)]
    return missing or None
