"""C16 -- the checked-in generated parser implements exactly the grammar file.

Two parsers are held side by side, both *without* a transformer (so no registry of the
library is involved):

  grammar side   lark.Lark(<measured.lark of the tree>, parser="lalr", start=[unit, quantity], ...)
                 built with the installed lark and with exactly the options the Makefile rule
                 (python -m lark.tools.standalone --start unit --start quantity) uses
  shipped side   measured._parser.Parser()  -- the serialized DATA/MEMO of the tree

Both files are taken from the directory ``import measured`` resolves to, so that a scratch
copy put first on PYTHONPATH is what gets checked.

(1) structural differential (one case, many counted obligations): terminals (pattern class,
    regexp text, flags, priority, widths), ignore set, lexer configuration, behaviour-relevant
    options, rule multiset (origin, expansion with filter flags, alias, tree-shaping options)
    and the LALR action/goto tables up to a state bijection found by parallel breadth-first
    traversal from each start state.
(2) generated differential (Hypothesis): sentences derived from the rule set and terminal
    regexps of *either* side, for both start symbols, plus token-level mutations (delete,
    duplicate, swap, substitute a token; splice characters of the grammar's alphabet and of a
    near-miss alphabet), plus plain strings over the alphabet.
(3) coverage-guided campaign (atheris, in subprocesses; see c16_fuzz.py), empty corpus and
    a corpus of the strings of /repo/tests.

Oracle for (2)/(3): for each start symbol both sides reject, or both accept with equal trees
(rule names / aliases, token types, token values, child order).
"""
from __future__ import annotations

import importlib
import importlib.util
import json
import os
import re
import shutil
import subprocess
import sys
import tempfile
import time
from collections import Counter, deque

from hypothesis import strategies as st

from .. import core

ID = "C16"
STARTS = ("unit", "quantity")
RULE = (
    "One structural case: terminals, ignore set, lexer configuration, rules and LALR tables of the parser "
    "built from measured.lark are compared with those deserialized from _parser.py up to a state bijection "
    "(obligation counts in coverage.structural). Generated cases are strings, each parsed with both start "
    "symbols by both parsers: Hypothesis sentences derived from the rules+terminal regexps of either side "
    "(fuel-bounded random derivations), 0-2 token-level mutations (delete/duplicate/swap/substitute a token, "
    "splice 1-3 characters of the grammar alphabet or of a near-miss alphabet), strings over the alphabet, "
    "arbitrary short unicode; the strings of tests/test_parsing.py; atheris campaigns (bytes decoded as "
    "UTF-8, coverage of measured._parser and lark) from an empty and from the seeded corpus. Non-trivial: "
    "under at least one start symbol the string is accepted with >=3 tokens or rejected with the first error "
    "at a position >0 after at least one consumed token (as reported by the grammar-side parser); distinct = the token-type sequences "
    "(accepted: whole input; rejected: tokens before the error + error class) of the non-trivial start symbols."
)
ASSUMPTIONS = [
    "the reference parser is built by the installed lark (1.3.x) while _parser.py embeds the lark 1.1.2 runtime; "
    "differences between the two runtimes that are not differences of grammar/tables would show up as failures "
    "(none do on the pinned tree)",
    "%import common.* in measured.lark is resolved against the common.lark bundled with the installed lark",
    "terminal regexps are compared textually (equal text => equal language; different text is reported even if "
    "the languages coincided)",
    "the 'unbounded' max-width sentinel of a pattern differs between lark/python versions (2**32-1 vs 2**64) and is "
    "normalised to 'inf' before comparison",
    "rule fields without effect on the accepted language or the tree (order, priority, template_source) are "
    "reported as cosmetic differences, not failures; unreachable states of the shipped table likewise",
    "an exception other than LarkError escaping a parser counts as 'does not accept' (totality is C17's subject)",
    "Hypothesis supplies 16 bytes of entropy per generated case (seeded from VERIF_SEED); the derivation, terminal "
    "strings and mutations are a deterministic function of those bytes",
    "atheris campaigns use libFuzzer seeds derived from VERIF_SEED and run with ASLR disabled where possible, yet "
    "libFuzzer's schedule is not bit-for-bit repeatable in every environment; every disagreeing input is re-run "
    "in-process and saved as a JSON replay, so reproducing a finding never depends on repeating a campaign",
    "the table isomorphism extends the sampled differential to all token sequences only under the assumption that "
    "the two LALR drivers and contextual lexers interpret equal tables/terminals equally; the sampled and "
    "coverage-guided differential is the evidence for that part",
]
ENUMERATION_EXHAUSTIVE = False

CORPUS_DIR = os.path.join(core.ROOT, "corpus", "c16")
UNBOUNDED = 2**32 - 1

# near-miss characters: look like members of the grammar's alphabet but are not (or are other
# code points of the same glyph); plus a few generic outsiders
NEAR_MISS = [chr(c) for c in (
    0x25, 0x2C, 0x5F, 0x23, 0xB5, 0x2126, 0xE9, 0x663, 0xA0, 0x2009, 0x207A, 0x207C, 0x2212, 0xB7, 0xD7, 0xF7,
    0x2080, 0x212B, 0x0, 0x1F600, 0x1D49, 0x2099, 0x5E, 0x2F, 0x2A, 0x22C5, 0x207B,
)]
EDGE_STRINGS = [
    "m ^2", "m^+2", "m^", "m⁻", "5. m", "-.5 kg", "1 1", "1", "1 1 1", "5", "+5 m", "5e3 m", "5E-3 m*s",
    "- -", "-5 -5", ". .", "5 m / s / s", "m*", "*m", "m**s", "m⋅s/kg⋅K", "m s kg", "m ⁻¹", "5\tm\n/\r\ns",
    "5 1", "1e1", "1e1 1e1", "(m)", "°C", "Å²", "ₐₜ", "Ωm", "5 ☉", ".5.5", "5.5.5 m", "m^2^2", "m²^2", "m^2²",
]

S = {}  # state built by setup(): sides, grammars, alphabet, load failures


# --------------------------------------------------------------------------------------
# setup


class _Side:
    def __init__(self, name, parser, lark_error, shift, reduce_):
        self.name = name
        self.parser = parser
        self.LarkError = lark_error
        self.Shift = shift
        self.Reduce = reduce_
        self.terminals = list(parser.parser.lexer_conf.terminals)
        self.lark_terminals = list(parser.terminals)
        self.rules = list(parser.rules)
        self.conf_rules = list(parser.parser.parser_conf.rules)
        self.table = parser.parser.parser._parse_table
        self.lexer_conf = parser.parser.lexer_conf
        self.options = parser.options


def package_dir():
    spec = importlib.util.find_spec("measured")
    if spec is None or not spec.origin:
        raise RuntimeError("the measured package cannot be located")
    return os.path.dirname(os.path.abspath(spec.origin))


def setup(tier, lark_module=None, shipped_module=None):
    """Idempotent.  lark_module / shipped_module let the fuzz entry point hand in modules it
    imported under coverage instrumentation."""
    if S:
        return
    try:
        lark = lark_module or importlib.import_module("lark")
    except ImportError as e:  # -> HARNESS-ERROR, exit 2 (never a violation)
        raise RuntimeError(f"INCONCLUSIVE: lark is not importable ({e}); C16 cannot build the reference parser")
    d = package_dir()
    S["dir"] = d
    S["lark_version"] = getattr(lark, "__version__", "?")
    S["load_failures"] = []
    S["grammar_path"] = os.path.join(d, "measured.lark")
    S["parser_path"] = os.path.join(d, "_parser.py")

    fresh = shipped = None
    text = None
    try:
        with open(S["grammar_path"], encoding="utf-8") as fh:
            text = fh.read()
        # the options of `python -m lark.tools.standalone --start unit --start quantity`
        p = lark.Lark(
            text, parser="lalr", start=list(STARTS), lexer="contextual", debug=False, keep_all_tokens=False,
            regex=False, propagate_positions=False, maybe_placeholders=False, use_bytes=False,
        )
        la = importlib.import_module("lark.parsers.lalr_analysis")
        fresh = _Side("grammar", p, lark.exceptions.LarkError, la.Shift, la.Reduce)
    except Exception as e:  # the grammar file of the tree does not compile
        S["load_failures"].append((f"C16:load:grammar:{type(e).__name__}", f"measured.lark at {S['grammar_path']} cannot be compiled by lark {S['lark_version']}: {type(e).__name__}: {str(e)[:300]}"))
    try:
        mod = shipped_module or importlib.import_module("measured._parser")
        if os.path.dirname(os.path.abspath(mod.__file__)) != d:
            raise RuntimeError(f"measured._parser resolved to {mod.__file__}, not inside {d}")
        shipped = _Side("shipped", mod.Parser(), mod.LarkError, mod.Shift, mod.Reduce)
    except Exception as e:
        S["load_failures"].append((f"C16:load:shipped:{type(e).__name__}", f"measured._parser at {S['parser_path']} cannot be imported/deserialized: {type(e).__name__}: {str(e)[:300]}"))
    S["fresh"], S["shipped"] = fresh, shipped
    # the same two artefacts loaded with the one load-time option that changes the trees they build
    # (propagate_positions: every node carries the span of text it covers)
    S["fresh_pos"] = S["shipped_pos"] = None
    if fresh is not None and shipped is not None:
        try:
            p2 = lark.Lark(
                text, parser="lalr", start=list(STARTS), lexer="contextual", debug=False, keep_all_tokens=False,
                regex=False, propagate_positions=True, maybe_placeholders=False, use_bytes=False,
            )
            S["fresh_pos"] = _Side("grammar+positions", p2, lark.exceptions.LarkError, la.Shift, la.Reduce)
            S["shipped_pos"] = _Side("shipped+positions", mod.Parser(propagate_positions=True), mod.LarkError, mod.Shift, mod.Reduce)
        except Exception as e:
            S["load_failures"].append((f"C16:load:with-positions:{type(e).__name__}", f"the parsers cannot be loaded with propagate_positions=True: {type(e).__name__}: {str(e)[:300]}"))
    S["grammar_text"] = text
    S["struct"] = None
    if fresh is None or shipped is None:
        return
    S["alphabet"] = _alphabet(text, fresh, shipped)
    S["gram"] = {}
    for side in (fresh, shipped):
        try:
            S["gram"][side.name] = _Gram(side)
        except Exception as e:
            S["load_failures"].append((f"C16:load:{side.name}-terminal-regexp:{type(e).__name__}", f"{side.name}: a terminal regexp cannot be compiled: {e}"))
    S["ws"] = _ws_strings(fresh)


def _sre():
    try:
        import re._parser as sre  # py>=3.11
    except ImportError:  # pragma: no cover
        import sre_parse as sre
    return sre


def _alphabet(text, fresh, shipped):
    """Characters the two artefacts mention: string literals and range end points of the grammar
    file, literal characters / small ranges of every terminal regexp of both sides."""
    chars = set()
    for lit in re.findall(r'"((?:[^"\\\n]|\\.)*)"', text or ""):
        try:
            lit = json.loads('"' + lit + '"')
        except ValueError:
            pass
        chars.update(lit)
    sre = _sre()

    def walk(items):
        for op, av in items:
            name = str(op)
            if name == "LITERAL" or name == "NOT_LITERAL":
                chars.add(chr(av))
            elif name == "RANGE":
                lo, hi = av
                if hi - lo <= 64:
                    chars.update(chr(c) for c in range(lo, hi + 1))
                else:
                    chars.update((chr(lo), chr(hi), chr((lo + hi) // 2)))
            elif name == "IN":
                walk(av)
            elif name == "BRANCH":
                for b in av[1]:
                    walk(b)
            elif name in ("MAX_REPEAT", "MIN_REPEAT", "POSSESSIVE_REPEAT"):
                walk(av[2])
            elif name in ("SUBPATTERN",):
                walk(av[3])
            elif name in ("ATOMIC_GROUP",):
                walk(av)
            elif name in ("ASSERT", "ASSERT_NOT"):
                walk(av[1])

    for side in (fresh, shipped):
        for t in side.terminals:
            try:
                walk(sre.parse(t.pattern.to_regexp()))
            except Exception:
                pass
    chars.update("0123456789 ")
    return sorted(chars)


def _ws_strings(fresh):
    out = [" ", "  ", "\t", "\n", "\r\n", "\x0c", "\n\n", "\n \n", " \n\t\n  ", "\r\n\r\n "]
    ign = set(fresh.lexer_conf.ignore)
    ok = []
    for w in out:
        for t in fresh.terminals:
            if t.name in ign and re.fullmatch(t.pattern.to_regexp(), w):
                ok.append(w)
                break
    return ok or [" "]


class _Gram:
    """Rules and terminal strategies of one side, for derivation-directed generation."""

    def __init__(self, side):
        self.name = side.name
        self.alts = {}
        for r in side.rules:
            self.alts.setdefault(str(r.origin.name), []).append([(bool(x.is_term), str(x.name)) for x in r.expansion])
        for k in self.alts:
            self.alts[k].sort()
        self.term_names = sorted(t.name for t in side.terminals)
        self.term_re = {t.name: re.compile(t.pattern.to_regexp()) for t in side.terminals}
        self.term_ast = {t.name: list(_sre().parse(t.pattern.to_regexp())) for t in side.terminals}
        # minimal derivation height per nonterminal (None = unproductive)
        h = {}
        changed = True
        while changed:
            changed = False
            for nt, alts in self.alts.items():
                best = None
                for alt in alts:
                    hs = [0 if is_t else h.get(n) for is_t, n in alt]
                    if any(is_t and n not in self.term_re for is_t, n in alt):
                        continue
                    if any(x is None for x in hs):
                        continue
                    v = 1 + max(hs, default=0)
                    best = v if best is None else min(best, v)
                if best is not None and h.get(nt) != best and (h.get(nt) is None or best < h[nt]):
                    h[nt] = best
                    changed = True
        self.height = h

        def alt_height(alt):
            hs = [0 if is_t else h.get(n) for is_t, n in alt]
            if any(x is None for x in hs) or any(is_t and n not in self.term_re for is_t, n in alt):
                return None
            return 1 + max(hs, default=0)

        self.usable = {nt: [a for a in alts if alt_height(a) is not None] for nt, alts in self.alts.items()}
        self.shortest = {}
        for nt, alts in self.usable.items():
            if alts:
                m = min(alt_height(a) for a in alts)
                self.shortest[nt] = [a for a in alts if alt_height(a) == m]


def budget(tier):
    setup(tier)  # the standard driver asks for the budget before it calls setup
    if not S.get("gram") or len(S["gram"]) < 2:
        return {"examples": 0, "shards": 1}
    if tier == "quick":
        return {"examples": 3000, "shards": 1}
    return {"examples": 20000, "shards": 16}


# --------------------------------------------------------------------------------------
# (1) structural differential


def _term_view(t):
    p = t.pattern
    mx = p.max_width
    return {
        "pattern-class": type(p).__name__,
        "pattern": p.value,
        "flags": sorted(p.flags),
        "priority": t.priority,
        "regexp": p.to_regexp(),
        "min-width": p.min_width,
        "max-width": "inf" if mx >= UNBOUNDED else mx,
    }


def _rule_key(r):
    return (str(r.origin.name), tuple(str(x.name) for x in r.expansion))


def _rule_view(r):
    o = r.options
    return {
        "alias": None if r.alias is None else str(r.alias),
        "symbol-kinds": tuple("T" if x.is_term else "N" for x in r.expansion),
        "filter-out": tuple(bool(getattr(x, "filter_out", False)) for x in r.expansion),
        "keep-all-tokens": bool(o.keep_all_tokens) if o else False,
        "expand1": bool(o.expand1) if o else False,
        "empty-indices": tuple(o.empty_indices) if o else (),
    }


def _rule_cosmetic(r):
    o = r.options
    return (r.order, getattr(o, "priority", None), getattr(o, "template_source", None))


def _rk(k):
    return f"{k[0]}->{' '.join(k[1]) or 'ε'}"


def _compare_rules(out_fail, stats, fresh_rules, shipped_rules, where):
    fg, sg = {}, {}
    for r in fresh_rules:
        fg.setdefault(_rule_key(r), []).append(r)
    for r in shipped_rules:
        sg.setdefault(_rule_key(r), []).append(r)
    for k in sorted(set(fg) | set(sg)):
        stats["rules_compared"] += 1
        if k not in sg:
            out_fail(f"C16:struct:rule-missing-in-shipped:{_rk(k)}", f"{where}: the grammar has rule {_rk(k)}; _parser.py has not")
            continue
        if k not in fg:
            out_fail(f"C16:struct:rule-extra-in-shipped:{_rk(k)}", f"{where}: _parser.py has rule {_rk(k)}; the grammar has not")
            continue
        if len(fg[k]) != len(sg[k]):
            out_fail(f"C16:struct:rule-multiplicity:{_rk(k)}", f"{where}: rule {_rk(k)} occurs {len(fg[k])}x in the grammar, {len(sg[k])}x in _parser.py")
        a, b = _rule_view(fg[k][0]), _rule_view(sg[k][0])
        for fld in sorted(a):
            stats["rule_fields_compared"] += 1
            if a[fld] != b[fld]:
                out_fail(f"C16:struct:rule:{_rk(k)}:{fld}", f"{where}: rule {_rk(k)}: {fld} is {a[fld]!r} from the grammar, {b[fld]!r} in _parser.py")
        if _rule_cosmetic(fg[k][0]) != _rule_cosmetic(sg[k][0]):
            stats["cosmetic_differences"].append(f"{where}: {_rk(k)}: (order, priority, template_source) {_rule_cosmetic(fg[k][0])} vs {_rule_cosmetic(sg[k][0])}")


def _action(side, a):
    try:
        kind, arg = a
    except (TypeError, ValueError):
        return ("?", repr(a))
    if kind == side.Shift:
        return ("S", arg)
    if kind == side.Reduce and hasattr(arg, "expansion"):
        return ("R", (_rule_key(arg), tuple(sorted(_rule_view(arg).items()))))
    return ("?", repr(a))


def structural() -> core.Outcome:
    out = core.Outcome()
    out.classes.append("structural:run")
    seen = set()

    def fail(bucket, detail):
        if bucket not in seen:
            seen.add(bucket)
            out.fail(bucket, detail)

    for b, dtl in S["load_failures"]:
        fail(b, dtl)
    F, P = S.get("fresh"), S.get("shipped")
    stats = {
        "lark_version": S.get("lark_version"), "grammar_file": S.get("grammar_path"), "parser_file": S.get("parser_path"),
        "terminals_compared": 0, "terminal_fields_compared": 0, "ignore_names_compared": 0, "lexer_conf_fields_compared": 0,
        "options_compared": 0, "rules_compared": 0, "rule_fields_compared": 0, "start_symbols_compared": 0,
        "states_matched": 0, "states_grammar": 0, "states_shipped": 0, "shipped_states_unreachable": 0,
        "table_entries_compared": 0, "shift_goto_entries_compared": 0, "reduce_entries_compared": 0,
        "end_states_compared": 0, "cosmetic_differences": [], "tables_isomorphic": False, "identical": False,
    }
    S["struct"] = stats
    if F is None or P is None:
        return out

    # terminals: what the lexers are built from, and the Lark-level list
    for where, ft, pt in (("lexer_conf.terminals", F.terminals, P.terminals), ("Lark.terminals", F.lark_terminals, P.lark_terminals)):
        fn, pn = Counter(t.name for t in ft), Counter(t.name for t in pt)
        for n in sorted(set(fn) | set(pn)):
            stats["terminals_compared"] += 1
            if fn[n] != pn[n]:
                kind = "missing-in-shipped" if not pn[n] else "extra-in-shipped" if not fn[n] else "multiplicity"
                fail(f"C16:struct:terminal-{kind}:{n}", f"{where}: terminal {n} occurs {fn[n]}x from the grammar, {pn[n]}x in _parser.py")
                continue
            a = _term_view(next(t for t in ft if t.name == n))
            b = _term_view(next(t for t in pt if t.name == n))
            for fld in sorted(a):
                if fld == "regexp" and (a["pattern"], a["pattern-class"], a["flags"]) != (b["pattern"], b["pattern-class"], b["flags"]):
                    continue  # same root cause as the pattern/flags difference already reported
                stats["terminal_fields_compared"] += 1
                if a[fld] != b[fld]:
                    fail(f"C16:struct:terminal:{n}:{fld}", f"{where}: terminal {n}: {fld} is {a[fld]!r} from the grammar, {b[fld]!r} in _parser.py")
    # ignore set and lexer configuration
    fi, pi = sorted(set(F.lexer_conf.ignore)), sorted(set(P.lexer_conf.ignore))
    stats["ignore_names_compared"] = len(set(fi) | set(pi))
    if fi != pi:
        fail("C16:struct:ignore", f"%ignore set is {fi} from the grammar, {pi} in _parser.py")
    for fld in ("g_regex_flags", "use_bytes", "lexer_type"):
        stats["lexer_conf_fields_compared"] += 1
        a, b = getattr(F.lexer_conf, fld, None), getattr(P.lexer_conf, fld, None)
        if a != b:
            fail(f"C16:struct:lexer-conf:{fld}", f"lexer_conf.{fld} is {a!r} from the grammar, {b!r} in _parser.py")
    for fld in ("callbacks",):
        stats["lexer_conf_fields_compared"] += 1
        a, b = sorted(getattr(F.lexer_conf, fld, None) or {}), sorted(getattr(P.lexer_conf, fld, None) or {})
        if a != b:
            fail(f"C16:struct:lexer-conf:{fld}", f"lexer_conf.{fld} keys are {a!r} from the grammar, {b!r} in _parser.py")
    # options with an effect on the language or on the tree at load/run time
    for fld in ("parser", "lexer", "start", "maybe_placeholders", "tree_class", "postlex", "regex", "g_regex_flags", "use_bytes", "edit_terminals"):
        stats["options_compared"] += 1
        a, b = getattr(F.options, fld, None), getattr(P.options, fld, None)
        if fld == "start":
            a, b = sorted(a or []), sorted(b or [])
        if a != b:
            fail(f"C16:struct:option:{fld}", f"option {fld} is {a!r} for the Makefile build, {b!r} in _parser.py")
    # rules
    _compare_rules(fail, stats, F.rules, P.rules, "Lark.rules")
    _compare_rules(fail, stats, F.conf_rules, P.conf_rules, "parser_conf.rules")

    # tables
    ft, pt = F.table, P.table
    stats["states_grammar"], stats["states_shipped"] = len(ft.states), len(pt.states)
    fs, ps = dict(ft.start_states), dict(pt.start_states)
    stats["start_symbols_compared"] = len(set(fs) | set(ps) | set(STARTS))
    if sorted(fs) != sorted(ps) or sorted(fs) != sorted(STARTS):
        fail("C16:struct:table:start-symbols", f"start symbols: grammar table {sorted(fs)}, _parser.py table {sorted(ps)}, Makefile {sorted(STARTS)}")
    fmap = {}  # grammar state -> shipped state
    rmap = {}
    path = {}
    q = deque()
    table_ok = True
    for s0 in sorted(set(fs) & set(ps)):
        a, b = fs[s0], ps[s0]
        if a in fmap or b in rmap:
            if fmap.get(a) != b or rmap.get(b) != a:
                fail(f"C16:struct:table:{s0}:start-state-shared", f"start state of {s0} is shared inconsistently between the tables")
                table_ok = False
            continue
        fmap[a], rmap[b] = b, a
        path[a] = s0 + ":"
        q.append(a)
    while q:
        a = q.popleft()
        b = fmap[a]
        ra, rb = ft.states.get(a), pt.states.get(b)
        where = path[a]
        if ra is None or rb is None:
            fail(f"C16:struct:table:{where}:state-missing", f"state reached by [{where}] is missing from the {'grammar' if ra is None else 'shipped'} table")
            table_ok = False
            continue
        stats["states_matched"] += 1
        for tok in sorted(set(map(str, ra)) | set(map(str, rb))):
            stats["table_entries_compared"] += 1
            if tok not in rb:
                fail(f"C16:struct:table:{where}:{tok}:missing-in-shipped", f"state [{where}]: the grammar's table has an action on {tok}, _parser.py's has none")
                table_ok = False
                continue
            if tok not in ra:
                fail(f"C16:struct:table:{where}:{tok}:extra-in-shipped", f"state [{where}]: _parser.py's table has an action on {tok}, the grammar's has none")
                table_ok = False
                continue
            (ka, va), (kb, vb) = _action(F, ra[tok]), _action(P, rb[tok])
            if ka != kb:
                fail(f"C16:struct:table:{where}:{tok}:kind", f"state [{where}] on {tok}: {'Shift' if ka == 'S' else 'Reduce' if ka == 'R' else ka} from the grammar, {'Shift' if kb == 'S' else 'Reduce' if kb == 'R' else kb} in _parser.py")
                table_ok = False
                continue
            if ka == "R":
                stats["reduce_entries_compared"] += 1
                if va[0] == vb[0] and va != vb:
                    for (fld, x), (_, y) in zip(va[1], vb[1]):
                        if x != y:
                            fail(f"C16:struct:rule:{_rk(va[0])}:{fld}", f"state [{where}] on {tok}: the rule reduced by, {_rk(va[0])}: {fld} is {x!r} from the grammar, {y!r} in _parser.py")
                    table_ok = False
                elif va != vb:
                    fail(f"C16:struct:table:{where}:{tok}:reduce-rule", f"state [{where}] on {tok}: reduces by {_rk(va[0])} {dict(va[1])} from the grammar, by {_rk(vb[0])} {dict(vb[1])} in _parser.py")
                    table_ok = False
            elif ka == "S":
                stats["shift_goto_entries_compared"] += 1
                if va in fmap or vb in rmap:
                    if fmap.get(va) != vb or rmap.get(vb) != va:
                        fail(f"C16:struct:table:{where}:{tok}:target", f"state [{where}] on {tok}: target states do not correspond under the bijection built so far")
                        table_ok = False
                else:
                    fmap[va], rmap[vb] = vb, va
                    path[va] = (where + " " + tok).replace(": ", ":")
                    q.append(va)
            else:
                fail(f"C16:struct:table:{where}:{tok}:unknown-action", f"state [{where}] on {tok}: {va} / {vb}")
                table_ok = False
    fe, pe = dict(ft.end_states), dict(pt.end_states)
    for s0 in sorted(set(fe) | set(pe)):
        stats["end_states_compared"] += 1
        if s0 not in fe or s0 not in pe or fmap.get(fe[s0], object()) != pe[s0]:
            fail(f"C16:struct:table:end-state:{s0}", f"end state of {s0}: grammar {fe.get(s0)} -> expected shipped {fmap.get(fe.get(s0))}, _parser.py says {pe.get(s0)}")
            table_ok = False
    unreached_f = len(ft.states) - sum(1 for s in ft.states if s in fmap)
    stats["shipped_states_unreachable"] = len(pt.states) - sum(1 for s in pt.states if s in rmap)
    if unreached_f:
        stats["cosmetic_differences"].append(f"{unreached_f} grammar-table states not reached by the traversal")
    if stats["shipped_states_unreachable"]:
        stats["cosmetic_differences"].append(f"{stats['shipped_states_unreachable']} unreachable states in _parser.py's table")
    stats["tables_isomorphic"] = bool(table_ok)
    stats["identical"] = not out.failures
    out.nontrivial = "structural"
    out.sample = {"structural": {k: v for k, v in stats.items() if isinstance(v, (int, bool))}}
    return out


# --------------------------------------------------------------------------------------
# (2)/(3) differential parse of one string


def _norm(t):
    if hasattr(t, "children"):
        # the span a parser loaded with propagate_positions=True records on the node (all None
        # for the default load, which records nothing)
        meta = getattr(t, "_meta", None)
        span = tuple(getattr(meta, k, None) for k in ("start_pos", "end_pos", "line", "column", "end_line", "end_column")) if meta is not None else None
        if span is not None and all(v is None for v in span):
            span = None
        return ("T", str(t.data), tuple(_norm(c) for c in t.children), span)
    if hasattr(t, "type"):
        # where the token was found is part of the tree: ParseError positions and anything a
        # caller derives from token.line / token.column come from the same counters
        where = tuple(getattr(t, k, None) for k in ("start_pos", "end_pos", "line", "column", "end_line", "end_column"))
        return ("t", str(t.type), str.__str__(t), where)
    return ("?", repr(t))


def _parse(side, text, start):
    try:
        return ("A", _norm(side.parser.parse(text, start=start)), None)
    except side.LarkError as e:
        return ("R", type(e).__name__, e)
    except Exception as e:  # noqa -- not an accept; recorded
        return ("X", type(e).__name__, e)


def _err_pos(e):
    tok = getattr(e, "token", None)
    if tok is not None and getattr(tok, "start_pos", None) is not None:
        return tok.start_pos
    p = getattr(e, "pos_in_stream", None)
    return p if isinstance(p, int) else -1


def _census(text, start):
    """token (type, start, end) list the grammar-side parser consumed (ignored tokens excluded),
    up to the first error"""
    toks = []
    try:
        ip = S["fresh"].parser.parse_interactive(text, start=start)
        for tok in ip.lexer_thread.lex(ip.parser_state):
            ip.feed_token(tok)  # raises for the offending token, which is then not counted
            toks.append((str(tok.type), tok.start_pos, tok.end_pos))
    except Exception:
        pass
    return toks


def _covering(toks, pos):
    for ty, a, b in toks:
        if a is not None and b is not None and a <= pos < b:
            return ty
    return "after-last-token" if toks and pos >= (toks[-1][2] or 0) else "between-tokens"


def _tree_tokens(n, acc):
    if n[0] == "T":
        for c in n[2]:
            _tree_tokens(c, acc)
    elif n[0] == "t":
        acc.append(n[1])
    return acc


def _first_diff(a, b):
    """(label on the grammar side, what differs) of the first difference in pre-order"""
    if a[0] != b[0]:
        return a[1], "node-kind"
    if a[0] == "T":
        if a[1] != b[1]:
            return a[1], "rule-name"
        if len(a[2]) != len(b[2]):
            return a[1], "child-count"
        for x, y in zip(a[2], b[2]):
            d = _first_diff(x, y)
            if d:
                return d
        if a[3:] != b[3:]:
            return a[1], "node-span"
        return None
    if a[0] == "t":
        if a[1] != b[1]:
            return a[1], "token-type"
        if a[2] != b[2]:
            return a[1], "token-value"
        if a[3:] != b[3:]:
            return a[1], "token-position"
        return None
    return None if a == b else ("?", "leaf")


def check_text(text):
    """-> (failures [(bucket, detail)], nontrivial key or None, classes)"""
    F, P = S["fresh"], S["shipped"]
    fails, classes, keys = [], [], []
    for start in STARTS:
        a = _parse(F, text, start)
        b = _parse(P, text, start)
        toks = _census(text, start)
        types = " ".join(t[0] for t in toks)
        if a[0] == "A":
            classes.append(f"{start}:accept")
            if len(toks) >= 3:
                classes.append(f"{start}:accept>=3tokens")
                keys.append(f"{start}+{types}")
        else:
            pos = _err_pos(a[2])
            late = pos > 0 and bool(toks)
            classes.append(f"{start}:reject-late" if late else f"{start}:reject@0")
            if late:
                keys.append(f"{start}-{types}!{a[1]}")
            if a[0] == "X":
                classes.append(f"grammar-side-nonlark-exception:{a[1]}")
        if b[0] == "X":
            classes.append(f"shipped-nonlark-exception:{b[1]}")
        if (a[0] == "A") != (b[0] == "A"):
            if a[0] == "A":
                pos = _err_pos(b[2])
                ty = _covering(toks, pos) if pos >= 0 else "none"
                fails.append((
                    f"C16:diff:only-grammar-accepts:{ty}",
                    f"{text!r} as {start}: the parser built from measured.lark accepts (tokens: {types}); _parser.py raises {b[1]}: {str(b[2])[:160]!r}",
                ))
            else:
                pos = _err_pos(a[2])
                ty = _covering(toks, pos) if pos >= 0 else "none"
                stoks = " ".join(_tree_tokens(b[1], []))
                fails.append((
                    f"C16:diff:only-shipped-accepts:{a[1]}@{ty}",
                    f"{text!r} as {start}: _parser.py accepts (kept tokens: {stoks}); the parser built from measured.lark raises {a[1]} at {pos}: {str(a[2])[:160]!r}",
                ))
        elif a[0] == "A" and a[1] != b[1]:
            d = _first_diff(a[1], b[1]) or ("?", "?")
            fails.append((
                f"C16:diff:tree:{d[1]}:{d[0]}",
                f"{text!r} as {start}: both accept, trees first differ at {d[0]} ({d[1]}): grammar {a[1]!r} vs _parser.py {b[1]!r}"[:900],
            ))
        elif a[0] == "A" and S.get("fresh_pos") is not None and S.get("shipped_pos") is not None:
            a2, b2 = _parse(S["fresh_pos"], text, start), _parse(S["shipped_pos"], text, start)
            classes.append(f"{start}:accept:compared-with-positions")
            if a2[0] != b2[0] or (a2[0] == "A" and a2[1] != b2[1]):
                d = (_first_diff(a2[1], b2[1]) if a2[0] == b2[0] == "A" else None) or ("?", "?")
                fails.append((
                    f"C16:diff:tree-with-positions:{d[1]}:{d[0]}",
                    f"{text!r} as {start}, both loaded with propagate_positions=True: grammar {a2[:2]!r} vs _parser.py {b2[:2]!r}"[:900],
                ))
    return fails, (";".join(keys) if keys else None), classes


def _text_of(case):
    t = case["t"]
    if not isinstance(t, list) or not all(isinstance(x, str) for x in t):
        raise ValueError("t")
    return "".join(t)


def run_case(case) -> core.Outcome:
    try:
        kind = case["k"]
        if kind == "structural":
            return structural()
        if kind != "s":
            raise KeyError(kind)
        text = _text_of(case)
    except Exception:
        out = core.Outcome()
        out.invalid = True
        return out
    out = core.Outcome()
    if S.get("fresh") is None or S.get("shipped") is None:
        out.inconclusive = "a-side-did-not-load"
        return out
    fails, key, classes = check_text(text)
    for b, dtl in fails:
        out.fail(b, dtl)
    out.classes = ["src:" + str(case.get("src", "?"))] + classes
    out.nontrivial = key
    out.sample = {"text": text, "src": case.get("src"), "key": key}
    return out


def still_fails(case, bucket):
    return any(f.bucket == bucket for f in run_case(case).failures)


# --------------------------------------------------------------------------------------
# Hypothesis generation
#
# One Hypothesis draw (16 bytes, seeded by the runner) feeds a private PRNG from which the whole
# derivation is made: Hypothesis' per-draw overhead (~100 draws per sentence, 1 ms per
# from_regex draw) would otherwise eat the quick budget.  The case handed to run_case is the
# derived list of pieces, not the entropy, so replay and shrinking do not depend on the PRNG.


def _sample_regex(nodes, rnd, out):
    for op, av in nodes:
        name = str(op)
        if name == "LITERAL":
            out.append(chr(av))
        elif name == "NOT_LITERAL":
            out.append(rnd.choice(S["alphabet"]))
        elif name == "ANY":
            out.append(rnd.choice(S["alphabet"]))
        elif name == "IN":
            items = [x for x in av if str(x[0]) in ("LITERAL", "RANGE")]
            if not items or any(str(x[0]) == "NEGATE" for x in av):
                out.append(rnd.choice(S["alphabet"]))
                continue
            k, v = rnd.choice(items)
            out.append(chr(v) if str(k) == "LITERAL" else chr(rnd.randint(v[0], v[1])))
        elif name == "BRANCH":
            _sample_regex(rnd.choice(av[1]), rnd, out)
        elif name in ("MAX_REPEAT", "MIN_REPEAT", "POSSESSIVE_REPEAT"):
            lo, hi, sub = av
            n = lo
            hi = min(int(hi), lo + 5)
            while n < hi and rnd.random() < 0.45:
                n += 1
            for _ in range(n):
                _sample_regex(sub, rnd, out)
        elif name == "SUBPATTERN":
            _sample_regex(av[3], rnd, out)
        elif name == "ATOMIC_GROUP":
            _sample_regex(av, rnd, out)
        # AT / ASSERT / GROUPREF ...: nothing is emitted; the sample may then not match, which is
        # counted (class gen:terminal-sample-mismatch) and is still a perfectly good test string


def _term_string(g, name, rnd):
    for _ in range(4):
        out = []
        _sample_regex(g.term_ast[name], rnd, out)
        s = "".join(out)
        if g.term_re[name].fullmatch(s):
            return s
    G_STATS["terminal-sample-mismatch"] += 1
    return s


G_STATS = Counter()


def _sentence(g, rnd):
    start = rnd.choice(STARTS)
    toks = []

    def expand(sym, fuel):
        alts = g.usable.get(sym) or []
        if fuel <= 0:
            alts = g.shortest.get(sym) or alts
        if not alts:
            return
        for is_t, name in rnd.choice(alts):
            if is_t:
                toks.append(_term_string(g, name, rnd))
            else:
                expand(name, fuel - 1)

    expand(start, rnd.randint(1, 9))
    return toks


def _derive(entropy: bytes):
    import random

    rnd = random.Random(int.from_bytes(entropy, "big"))
    arm = rnd.choice(["gen", "gen", "gen", "mut", "mut", "mut", "mut", "alpha", "text"])
    alphabet = S["alphabet"]

    def ch():
        return rnd.choice(alphabet) if rnd.random() < 0.7 else rnd.choice(NEAR_MISS)

    if arm == "alpha":
        return {"k": "s", "src": "alphabet", "t": [ch() for _ in range(rnd.randint(0, 12))]}
    if arm == "text":
        # arbitrary code points (no surrogates), biased to the BMP
        cps = []
        for _ in range(rnd.randint(0, 8)):
            c = rnd.randint(0, 0x2FFF) if rnd.random() < 0.8 else rnd.randint(0, 0x10FFFF)
            if 0xD800 <= c <= 0xDFFF:
                c = 0xFFFD
            cps.append(chr(c))
        return {"k": "s", "src": "unicode", "t": cps}
    which = rnd.choice(["grammar", "shipped"])
    g = S["gram"][which]
    toks = _sentence(g, rnd)
    src = "gen-" + which
    if arm == "mut":
        src = "mutated-" + which
        for _ in range(rnd.randint(1, 2)):
            op = rnd.choice(["delete", "duplicate", "swap", "substitute", "splice", "splice"])
            n = len(toks)
            if op == "splice" or n == 0:
                chars = "".join(ch() for _ in range(rnd.randint(1, 3)))
                if n and rnd.random() < 0.5:
                    i = rnd.randrange(n)
                    j = rnd.randint(0, len(toks[i]))
                    toks = toks[:i] + [toks[i][:j] + chars + toks[i][j:]] + toks[i + 1:]
                else:
                    i = rnd.randint(0, n)
                    toks = toks[:i] + [chars] + toks[i:]
            elif op == "delete":
                i = rnd.randrange(n)
                toks = toks[:i] + toks[i + 1:]
            elif op == "duplicate":
                i = rnd.randrange(n)
                toks = toks[: i + 1] + toks[i:]
            elif op == "swap":
                i, j = rnd.randrange(n), rnd.randrange(n)
                toks = list(toks)
                toks[i], toks[j] = toks[j], toks[i]
            else:
                i = rnd.randrange(n)
                toks = toks[:i] + [_term_string(g, rnd.choice(g.term_names), rnd)] + toks[i + 1:]
    pieces = []
    for i, t in enumerate(toks):
        if i:
            sep = rnd.choice([" ", " ", " ", "", "", "w"])
            if sep == "w":
                sep = rnd.choice(S["ws"])
            if sep:
                pieces.append(sep)
        pieces.append(t)
    return {"k": "s", "src": src, "t": list("".join(pieces))}  # characters: the generic shrinker deletes list items


def strategy(tier):
    return st.builds(_derive, st.binary(min_size=16, max_size=16))


def shard_extra():
    return {"generator_terminal_sample_mismatches": int(G_STATS["terminal-sample-mismatch"])}


def _seed_strings():
    out = []
    if os.path.isdir(CORPUS_DIR):
        for fn in sorted(os.listdir(CORPUS_DIR)):
            with open(os.path.join(CORPUS_DIR, fn), "rb") as fh:
                out.append(fh.read().decode("utf-8", "replace"))
    return out


def enumerate_cases(tier):
    yield {"k": "structural"}
    if S.get("fresh") is None or S.get("shipped") is None:
        return
    for s in _seed_strings():
        yield {"k": "s", "src": "tests-corpus", "t": [s]}
    for s in EDGE_STRINGS:
        yield {"k": "s", "src": "edge", "t": [s]}


# --------------------------------------------------------------------------------------
# (3) atheris campaigns, run after the Hypothesis phase


def _campaign_plan(tier, seed):
    """[(label, runs, libfuzzer seed, seeded?)]"""

    def fz(i):
        return ((seed * 1000003 + i * 7919 + 17) % (2**31 - 2)) + 1  # never 0 (= 'pick at random' for libFuzzer)

    if tier == "quick":
        return [("fuzz-empty-corpus", 15000, fz(1), False), ("fuzz-tests-corpus", 15000, fz(2), True)]
    runs = int(os.environ.get("C16_THOROUGH_RUNS", "250000"))
    return [("fuzz-empty-corpus" if i % 2 == 0 else "fuzz-tests-corpus", runs, fz(10 + i), i % 2 == 1) for i in range(16)]


def _write_dict(path):
    toks = list(S["alphabet"]) + ["^-", "^+", "e-", "E+", " /", "⁻¹", "5 ", "1 "]
    with open(path, "w", encoding="ascii") as fh:
        for t in toks:
            fh.write('"' + "".join("\\x%02x" % b for b in t.encode("utf-8")) + '"\n')


def _no_aslr():
    """libFuzzer under atheris replays a -seed exactly only when addresses repeat (id()-ordered
    containers inside the instrumented code), so the campaign is started with address-space
    randomisation switched off where the platform allows it."""
    if "no_aslr" not in S:
        S["no_aslr"] = []
        exe = shutil.which("setarch")
        if exe:
            pre = [exe, os.uname().machine, "-R"]
            try:
                if subprocess.run(pre + [sys.executable, "-c", "pass"], stdout=subprocess.DEVNULL, stderr=subprocess.DEVNULL, timeout=30).returncode == 0:
                    S["no_aslr"] = pre
            except Exception:
                pass
    return list(S["no_aslr"])


def _start_campaign(tmp, label, runs, fseed, seeded, idx):
    work = os.path.join(tmp, f"c{idx}")
    corpus = os.path.join(work, "corpus")
    os.makedirs(corpus)
    if seeded:
        for fn in sorted(os.listdir(CORPUS_DIR)):
            shutil.copy(os.path.join(CORPUS_DIR, fn), os.path.join(corpus, fn))
    dict_path = os.path.join(work, "dict")
    _write_dict(dict_path)
    outp = os.path.join(work, "stats.json")
    env = dict(os.environ)
    deps = os.path.join(core.ROOT, ".deps")
    parts = [p for p in env.get("PYTHONPATH", "").split(os.pathsep) if p]
    if deps not in parts:
        parts.append(deps)
    if core.ROOT not in parts:
        parts.append(core.ROOT)
    env["PYTHONPATH"] = os.pathsep.join(parts)
    env["PYTHONHASHSEED"] = env.get("PYTHONHASHSEED", "0")
    env["C16_FUZZ_OUT"] = outp
    env["C16_FUZZ_RUNS"] = str(runs)
    env["C16_FUZZ_EXPECT_DIR"] = S["dir"]
    cmd = [
        sys.executable, "-m", "vf.props.c16_fuzz", corpus, f"-runs={runs}", f"-seed={fseed}", "-max_len=48",
        f"-dict={dict_path}", f"-artifact_prefix={work}{os.sep}", "-print_final_stats=1",
        "-max_total_time=%d" % int(os.environ.get("C16_FUZZ_MAX_S", "240")),
    ]
    cmd = _no_aslr() + cmd
    errf = open(os.path.join(work, "stderr.txt"), "wb")
    proc = subprocess.Popen(cmd, cwd=core.ROOT, env=env, stdout=errf, stderr=subprocess.STDOUT)
    return {"label": label, "runs": runs, "seed": fseed, "seeded": seeded, "proc": proc, "work": work, "out": outp, "errf": errf, "t0": time.time()}


def _finish_campaign(c, col):
    rc = c["proc"].wait()
    c["errf"].close()
    wall = round(time.time() - c["t0"], 2)
    with open(os.path.join(c["work"], "stderr.txt"), "rb") as fh:
        log = fh.read().decode("utf-8", "replace")
    if not os.path.exists(c["out"]):
        raise RuntimeError(f"atheris campaign {c['label']} produced no statistics (exit {rc}); log tail: {log[-600:]}")
    with open(c["out"], encoding="utf-8") as fh:
        stats = json.load(fh)
    m = re.search(r"Done (\d+) runs", log)
    done = int(m.group(1)) if m else None
    if rc != 0:
        raise RuntimeError(f"atheris campaign {c['label']} exited {rc}; log tail: {log[-600:]}")
    # statistics are flushed every 2000 executions and at the requested run count; a campaign cut
    # short by -max_total_time may therefore under-report by < 2000 executions, never over-report
    if done is not None and stats["executions"] < done - 2001:
        raise RuntimeError(f"atheris campaign {c['label']} recorded only {stats['executions']} of the {done} executions libFuzzer reports; log tail: {log[-400:]}")
    if stats["executions"] == 0:
        raise RuntimeError(f"atheris campaign {c['label']} executed nothing; log tail: {log[-400:]}")
    # merge: passing executions as counts, failing inputs re-run here through run_case
    failing = list(stats.get("failing", []))
    fail_path = c["out"] + ".fail"
    if os.path.exists(fail_path):
        with open(fail_path, encoding="utf-8") as fh:
            for line in fh:
                try:
                    s = json.loads(line)["s"]
                except ValueError:
                    continue
                if s not in failing:
                    failing.append(s)
    col.evaluations += stats["executions"] - len(failing)
    col.classes.update(stats["classes"])
    col.classes["src:" + c["label"]] += stats["executions"] - len(failing)
    shown = 0
    for k, sample in stats["nontrivial"].items():
        if k not in col.nontrivial:
            col.nontrivial.add(k)
            if shown < 2 and sample and len(col.samples) < col.max_samples:
                shown += 1
                col.samples.append({"text": sample, "src": c["label"], "key": k})
    for s in failing[:200]:
        case = {"k": "s", "src": c["label"], "t": list(s)}
        col.add(case, run_case(case))
    return {
        "label": c["label"], "runs_requested": c["runs"], "executions_recorded": stats["executions"], "libfuzzer_done_runs": done,
        "libfuzzer_seed": c["seed"], "seed_corpus_files": len(os.listdir(CORPUS_DIR)) if c["seeded"] else 0,
        "distinct_nontrivial": len(stats["nontrivial"]), "failing_inputs": len(failing), "wall_s": wall,
        "coverage_edges": int((re.findall(r"cov: (\d+)", log) or [0])[-1]),
        "coverage_features": int((re.findall(r"ft: (\d+)", log) or [0])[-1]),
        "corpus_units_at_end": int((re.findall(r"corp: (\d+)/", log) or [0])[-1]),
        "instrumented": stats.get("instrumented"), "aslr_disabled": bool(S.get("no_aslr")),
    }


def post(tier, col):
    if S.get("struct") is not None:
        col.extra["structural"] = S["struct"]
    col.extra["artefacts"] = {"package_dir": S.get("dir"), "lark_version": S.get("lark_version")}
    if S.get("fresh") is None or S.get("shipped") is None or len(S.get("gram", {})) < 2:
        col.extra["fuzz_campaigns"] = "skipped: a side did not load"
        return
    # (a missing atheris makes the child exit non-zero -> RuntimeError below -> exit 2, never a violation)
    plan = _campaign_plan(tier, core.seed_value())
    col.samples = col.samples[:8]
    col.max_samples = 12
    tmp = tempfile.mkdtemp(prefix="vf-c16-")
    reports = []
    try:
        width = 1 if tier == "quick" else min(16, os.cpu_count() or 1)
        pending = list(enumerate(plan))
        running = []
        while pending or running:
            while pending and len(running) < width:
                idx, (label, runs, fseed, seeded) = pending.pop(0)
                running.append(_start_campaign(tmp, label, runs, fseed, seeded, idx))
            c = running.pop(0)
            try:
                reports.append(_finish_campaign(c, col))
            except BaseException:
                for r in running:
                    r["proc"].kill()
                    r["errf"].close()
                raise
    finally:
        shutil.rmtree(tmp, ignore_errors=True)
    col.extra["fuzz_campaigns"] = reports
    col.extra["alphabet_size"] = len(S["alphabet"])


def vacuity(col):
    if S.get("fresh") is None or S.get("shipped") is None:
        return None
    need = [
        "structural:run", "src:gen-grammar", "src:gen-shipped", "src:mutated-grammar", "src:mutated-shipped", "src:alphabet",
        "src:tests-corpus", "src:fuzz-empty-corpus", "src:fuzz-tests-corpus",
    ]
    for s0 in STARTS:
        need += [f"{s0}:accept>=3tokens", f"{s0}:reject-late", f"{s0}:reject@0"]
    missing = [c for c in need if not col.classes.get(c)]
    st_ = S.get("struct") or {}
    if not st_.get("states_matched") or not st_.get("table_entries_compared"):
        missing.append("structural: no table entries compared")
    return missing or None
