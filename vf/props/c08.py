"""C08 -- conversion results depend only on declared equivalences, not on query history.

Each case is a synthetic unit system (vf.synth) plus an *interleaving*: the declarations in
a fixed relative order with conversion / comparison queries inserted at generated
positions (successful, failing, repeated, on the final pair and on other units), possibly
a re-declaration of an existing pair with a new ratio, and one final query.
World A (fresh import) runs the interleaving; world B (fresh import) runs the same
declarations only, then the final query.  Oracle: final outcomes agree; in A a query
repeated immediately is bit-identical; a single-unit query whose units are linked by the
declarations made so far (plain graph search by the oracle) does not raise
ConversionNotFound.
"""
from __future__ import annotations

from fractions import Fraction

from hypothesis import strategies as st

from .. import convgen, core, synth

ID = "C08"
RULE = (
    "Hypothesis histories: synthetic world spec (3 families x 2-5 units, cut spanning trees, redundant edges, "
    "area/volume units) + positions of 0-8 queries (in_unit, ==, <, + ; on the final pair with probability 1/2, "
    "else random) between the declarations + optional re-declaration with a new ratio + final query; world A "
    "= interleaved, world B = declarations then final query, both in fresh imports. Plus three enumerated "
    "history scenarios in fresh worlds of their own, each compared with the same declarations without the early "
    "queries: an equivalence restated with the same number in another numeric type (6 numbers x type pairs x "
    "magnitudes x query kinds), two unrelated pairs with equal ratios written in different types queried over "
    "powers (echo), and a unit of a derived dimension used as bystander / in failing conversions / in comparisons "
    "before its expansion into base units is declared. Non-trivial: a query "
    "touching the final pair precedes a declaration (every enumerated scenario is); distinct = history hash."
)
ASSUMPTIONS = [
    "a fresh world (all measured modules purged from sys.modules and re-imported) stands for a fresh process",
    "final outcomes agree when both raise the same exception class or return the same unit and magnitudes within 1e-12 relative",
]


SUBPROCESS_SAMPLE = []  # histories whose world-B verdict is re-derived in a real fresh process


def setup(tier):
    pass


def budget(tier):
    return {"examples": 450, "shards": 1} if tier == "quick" else {"examples": 2500, "shards": 16}


KINDS = ["in_unit", "in_unit", "in_unit", "eq", "lt", "add", "m_add", "m_sub"]


def strategy(tier):
    SPEC = synth.world_spec(connected=False, chainy=True, nunits=(3, 6), keep=8, min_ext=1, rings=True)
    MAG = st.sampled_from([{"t": "int", "v": 1}, {"t": "int", "v": 3}, {"t": "float", "v": 2.5}, {"t": "int", "v": -7}])
    KIND = st.sampled_from(KINDS)

    @st.composite
    def single(draw, spec):
        """a query between two single units of one family (the stale-cache shape), or powers"""
        names = synth.unit_names(spec)
        by = {}
        for n, (d, k) in sorted(names.items()):
            by.setdefault((d, k), []).append(n)
        key = synth._choose(draw, sorted(k for k, v in by.items() if len(v) >= 2 and k[1] == 1))
        a = synth._choose(draw, by[key])
        b = synth._choose(draw, by[key])
        if draw(convgen.INT10) < 6:
            # prefer a partner that the declarations link through at least one intermediate
            # unit (multi-hop routes are where path-finder state matters)
            fam = next(f for f in spec["fams"] if f["dim"] == key[0])
            tag = key[0][0].upper()
            dist = {a: 0}
            todo = [a]
            while todo:
                x = todo.pop(0)
                for i, j, _p, _f, *_r in fam["edges"]:
                    for u, v in ((f"{tag}{i}", f"{tag}{j}"), (f"{tag}{j}", f"{tag}{i}")):
                        if u == x and v not in dist:
                            dist[v] = dist[x] + 1
                            todo.append(v)
            far = sorted(n for n, d in dist.items() if d >= 2)
            if far:
                b = synth._choose(draw, far)
        e = draw(st.sampled_from([1, 1, 1, 2, 2, 3, -1, -2]))
        return {"src": [["", a, e]], "dst": [["", b, e]], "mag": draw(MAG)}

    @st.composite
    def history(draw):
        spec = draw(SPEC)
        huge = None
        fam0 = spec["fams"][0]
        if len(fam0["sizes"]) >= 3 and draw(convgen.INT10) < 2:
            # one unit 2.5e200 times another: squaring that ratio overflows, so a query over the
            # squares *raises* (OverflowError, in any process) from inside the planning of a
            # conversion.  What is asked afterwards must not notice.
            n = len(fam0["sizes"])
            j = draw(synth._int(0, n - 2))
            fam0["sizes"][n - 1] = [fam0["sizes"][j][0] * 25 * 10**199, fam0["sizes"][j][1]]
            fam0["edges"] = [e for e in fam0["edges"] if n - 1 not in (e[0], e[1])] + [[n - 1, j, "", False, False]]
            spec["twins"], spec["echoes"] = [], []
            for x in spec["ext"]:   # areas and volumes are not built on the huge unit
                if x["base"] == n - 1:
                    x["base"] = j
                if x.get("also") == n - 1:
                    x["also"] = None
            tag = fam0["dim"][0].upper()
            huge = (f"{tag}{n - 1}", f"{tag}{j}")
        ndecl = sum(len(f["edges"]) for f in spec["fams"]) + sum(1 + (1 if (e["also"] is not None and e["also"] != e["base"]) else 0) for e in spec["ext"])

        def query():
            q = draw(single(spec)) if draw(convgen.INT10) < 5 else synth.draw_dok_query(draw, spec, MAG)
            q["kind"] = draw(KIND)
            return q

        final = query()
        steps = [["decl", i] for i in range(ndecl)]
        if ndecl and draw(convgen.INT10) < 4:
            i = draw(synth._int(0, ndecl - 1))
            pos = draw(synth._int(i + 1, len(steps)))
            # [1, 1]: the very same equivalence stated again, its number written in the other numeric
            # type (Decimal('8') for 8.0): nothing about the values changes, the type of results may
            factor = draw(st.sampled_from([[7, 1], [1, 2], [3, 1], [1, 1], [1, 1]]))
            if draw(convgen.INT10) < 5:
                pos = len(steps)  # the re-declaration is the last declaration of the history
            steps.insert(pos, ["redecl", i, factor])
            flat0 = [(f, e) for f in spec["fams"] for e in f["edges"]]
            if factor == [1, 1] and i < len(flat0) and draw(convgen.INT10) < 7:
                # make the restated ratio a number that float and Decimal hold alike (8, 0.25, 2.5)
                f, e = flat0[i]
                if e[0] != e[1] and sum(1 for x in f["edges"] if e[0] in (x[0], x[1])) == 1:
                    R = draw(st.sampled_from([[8, 1], [2, 1], [1, 4], [5, 2], [1, 2], [4, 1]]))
                    f["sizes"][e[0]] = [f["sizes"][e[1]][0] * R[0], f["sizes"][e[1]][1] * R[1]]
                    e[2], e[4] = "", False
            # half of the time the history asks about exactly the re-declared pair: before the
            # re-declaration (old ratio), and as the final query (new ratio)
            flat = [(f["dim"][0].upper(), e) for f in spec["fams"] for e in f["edges"]]
            if i < len(flat) and draw(convgen.INT10) < 7:
                tag, (ci, pj, _p, _f, *_r) = flat[i]
                e = draw(st.sampled_from([1, 1, 2]))
                final = {"src": [["", f"{tag}{ci}", e]], "dst": [["", f"{tag}{pj}", e]], "mag": draw(MAG),
                         "kind": draw(st.sampled_from(["in_unit", "add", "eq", "lt", "m_add", "m_sub", "m_add"]))}
                steps.insert(draw(synth._int(i + 1, pos)), ["query", dict(final)])
        flat = [(f["dim"][0].upper(), e) for f in spec["fams"] for e in f["edges"]]
        how = draw(convgen.INT10)
        echoes = [e for e in spec.get("echoes", []) if isinstance(e, list) and len(e) == 4]
        if echoes and how >= 5 and draw(convgen.INT10) < 7:
            # two declarations with one and the same ratio: the first pair is asked about (at a
            # power), then the second pair at the same power is the final query
            a, b, i2, j2 = synth._choose(draw, echoes)
            e = draw(st.sampled_from([2, 3, -1, -2, 2]))
            mg = draw(MAG)
            rev = draw(st.booleans())
            first = {"src": [["", b if rev else a, e]], "dst": [["", a if rev else b, e]], "mag": mg, "kind": "in_unit"}
            final = {"src": [["", j2 if rev else i2, e]], "dst": [["", i2 if rev else j2, e]], "mag": mg, "kind": "in_unit"}
            steps.append(["query", first])
        if flat and how < 5:
            # the history asks about exactly the pair of a declaration right before it is made (no
            # route yet, as a rule) and again right after it, in one direction only -- for one
            # declaration, or for every declaration of the world in turn
            which = list(range(len(flat))) if how < 2 else [draw(synth._int(0, len(flat) - 1))]
            for i in which:
                tag, (ci, pj, _p, _f, *_r) = flat[i]
                a, b = (f"{tag}{ci}", f"{tag}{pj}") if draw(st.booleans()) else (f"{tag}{pj}", f"{tag}{ci}")
                e = draw(st.sampled_from([1, 1, 1, 2]))
                final = {"src": [["", a, e]], "dst": [["", b, e]], "mag": draw(MAG), "kind": draw(st.sampled_from(["in_unit", "in_unit", "in_unit", "add", "m_add"]))}
                at = steps.index(["decl", i])
                if how < 2 or draw(st.booleans()):
                    steps.insert(at + 1, ["query", dict(final)])
                steps.insert(at, ["query", dict(final)])
        if huge is not None:
            names0 = sorted(n_ for n_, (d_, k_) in synth.unit_names(spec).items() if d_ == fam0["dim"] and k_ == 1 and n_ not in huge)
            far = synth._choose(draw, names0) if names0 else huge[1]
            e = draw(st.sampled_from([2, 3, 2]))
            steps.append(["query", {"src": [["", huge[0], e]], "dst": [["", far, e]], "mag": draw(MAG), "kind": "in_unit"}])
            if draw(st.booleans()):
                final = {"src": [["", huge[1], 1]], "dst": [["", far, 1]], "mag": draw(MAG), "kind": draw(st.sampled_from(["in_unit", "add", "eq"]))}
        if spec["ext"] and not any(s_[0] == "redecl" for s_ in steps) and draw(convgen.INT10) < 3:
            # an area/volume unit defined as a power of a length is re-declared with another
            # value; conversions that take such a unit apart (X/T -> L^k/T) are asked before and
            # after, next to the direct one
            x = draw(synth._int(0, len(spec["ext"]) - 1))
            idx = len(flat) + sum(1 + (1 if (e_["also"] is not None and e_["also"] != e_["base"]) else 0) for e_ in spec["ext"][:x])
            ext = spec["ext"][x]
            tag0, tag1 = spec["fams"][0]["dim"][0].upper(), spec["fams"][1]["dim"][0].upper()
            base = f"{tag0}{ext['base']}"
            apart = {"src": [["", f"X{x}", 1], ["", f"{tag1}0", -1]], "dst": [["", base, ext["k"]], ["", f"{tag1}0", -1]], "mag": draw(MAG), "kind": "in_unit"}
            direct = {"src": [["", f"X{x}", 1]], "dst": [["", base, ext["k"]]], "mag": draw(MAG), "kind": "in_unit"}
            if ["decl", idx] in steps:
                at = steps.index(["decl", idx])
                steps.insert(at + 1, ["query", dict(apart)])
                steps.append(["redecl", idx, draw(st.sampled_from([[4, 1], [1, 2], [3, 1]]))])
                steps.append(["query", dict(direct)])
                final = dict(apart)
        names = synth.unit_names(spec)

        def other_unit(u):
            d, k = names.get(u, (None, None))
            cands = sorted(n for n, (d2, k2) in names.items() if (d2, k2) == (d, k) and n != u)
            return synth._choose(draw, cands) if cands else u

        for _ in range(draw(synth._int(0, 8))):
            mode = draw(convgen.INT100)
            where = "any"
            if mode < 30:
                q = dict(final)
                where = "early" if draw(st.booleans()) else "any"
            elif mode < 70:
                # a relative of the final query: same units at another power, reversed, with the
                # other query kind, or sharing only its source / only its target (all of these
                # share path-finder / planner state with the final query)
                q = dict(final)
                how = draw(st.sampled_from(["power", "power", "reverse", "kind", "share-dst", "share-dst", "share-src"]))
                if how == "power":
                    k = draw(st.sampled_from([2, 3, -1]))
                    alt = lambda e: e * k if abs(e) == 1 else (1 if e > 0 else -1) * (5 - abs(e) if abs(e) in (2, 3) else 1)
                    q["src"] = [[p, u, alt(e)] for p, u, e in final["src"]]
                    q["dst"] = [[p, u, alt(e)] for p, u, e in final["dst"]]
                elif how == "reverse":
                    q["src"], q["dst"] = final["dst"], final["src"]
                elif how == "kind":
                    q["kind"] = draw(KIND)
                elif how == "share-dst":
                    q["src"] = [[p, other_unit(u), e] for p, u, e in final["src"]]
                else:
                    q["dst"] = [[p, other_unit(u), e] for p, u, e in final["dst"]]
                where = "late" if draw(st.booleans()) else "any"
            else:
                q = query()
            if where == "late":
                pos = len(steps)
            elif where == "early":
                pos = draw(synth._int(0, max(len(steps) // 2, 0)))
            else:
                pos = draw(synth._int(0, len(steps)))
            steps.insert(pos, ["query", q])
        return {"world": spec, "steps": steps, "final": final}

    return history()


def _exec_query(sw, q):
    """-> record  ('v', magnitude, unit str) | ('b', bool) | ('exc', type name)"""
    m = sw.m
    try:
        mag = convgen.mag_value(q["mag"])
        A, B = sw.build(q["src"]), sw.build(q["dst"])
        kind = q["kind"]
    except Exception:
        return None
    if kind not in KINDS:
        return None
    a, b = mag * A, 2 * B
    try:
        if kind == "in_unit":
            r = a.in_unit(B)
        elif kind in ("eq", "lt"):
            # compare with the quantity's own conversion where there is one, so that == is True
            # and < is decided by a factor of two whenever the comparison works at all
            try:
                other = a.in_unit(B)
            except Exception:  # noqa
                other = b
            r = (a == other) if kind == "eq" else (a < other * 2 if mag > 0 else other * 2 < a)
        elif kind == "add":
            r = a + b
        else:
            # uncertain measurements: the propagated uncertainty converts between the units too
            ma, mb = m.Measurement(a, 0.5), m.Measurement(b, 0.25)
            r = ma + mb if kind == "m_add" else ma - mb
            u = r.measurand.unit
            desc = (tuple(sorted((f.name or "?", e) for f, e in u.factors.items())), u.prefix.base, u.prefix.exponent)
            return ("m", r.measurand.magnitude, desc, r.uncertainty.magnitude)
    except Exception as e:  # noqa
        return ("exc", type(e).__name__)
    if isinstance(r, bool):
        return ("b", r)
    # the unit is described structurally: str() follows the order in which the factors of
    # an interned unit were first written, which legitimately differs between worlds
    u = r.unit
    desc = (tuple(sorted((f.name or "?", e) for f, e in u.factors.items())), u.prefix.base, u.prefix.exponent)
    return ("v", r.magnitude, desc)


def _same(r1, r2, tol=1e-12):
    if r1 is None or r2 is None:
        return True
    if r1[0] != r2[0]:
        return False
    if r1[0] == "m":
        return _same(("v",) + tuple(r1[1:3]), ("v",) + tuple(r2[1:3]), tol) and _same(("v", r1[3], r1[2]), ("v", r2[3], r2[2]), tol)
    if r1[0] == "v":
        if r1[2] != r2[2]:
            return False
        if type(r1[1]) is not type(r2[1]):
            return False  # int / float / Decimal: the type of a result is part of the outcome
        try:
            x, y = Fraction(r1[1]), Fraction(r2[1])
        except (ValueError, OverflowError):
            return repr(r1[1]) == repr(r2[1])
        if x == y:
            return True
        d = max(abs(x), abs(y))
        return abs(x - y) <= Fraction(tol) * d
    return r1 == r2


def _linked(edges, a, b):
    """plain graph search over the pairs declared so far (single base units only)"""
    if a == b:
        return True
    seen, todo = {a}, [a]
    while todo:
        x = todo.pop()
        for u, v in edges:
            for s, t in ((u, v), (v, u)):
                if s == x and t not in seen:
                    if t == b:
                        return True
                    seen.add(t)
                    todo.append(t)
    return False


def _run_world(spec, steps, final, interleaved, out=None):
    sw = synth.SynWorld(spec, declare_now=False)
    edges = []  # (unit name, unit name) for declarations between two single plain units
    touched_before_decl = False
    seen_final = False
    notfound = set()
    for st_ in steps:
        kind = st_[0]
        if kind in ("decl", "redecl"):
            i = st_[1]
            if not (0 <= i < len(sw.plan)):
                continue
            a, rhs_terms, flip, _lp = sw.plan[i]
            factor = Fraction(*st_[2]) if kind == "redecl" else None
            synth.run_plan(sw, i, factor)
            if len(rhs_terms) == 1 and rhs_terms[0][2] == 1:
                edges.append((a, rhs_terms[0][1]))
            if seen_final:
                touched_before_decl = True
        elif kind == "query" and interleaved:
            q = st_[1]
            if not synth.valid_query(sw, q):
                continue
            r1 = _exec_query(sw, q)
            r2 = _exec_query(sw, q)
            if out is not None and r1 is not None:
                same = r1 == r2 or (r1[0] in ("v", "m") and r2[0] == r1[0] and repr(r1[1:]) == repr(r2[1:]))
                if not same:
                    out.fail("C08:repeat", f"the same query gave {r1} and then {r2}: {q}")
                _linked_clause(out, sw, q, r1, edges, "during")
                key = repr((q.get("src"), q.get("dst"), q.get("kind")))
                if r1[0] == "exc":
                    notfound.add(key)
                elif key in notfound and "not-found-then-found" not in out.classes:
                    out.classes.append("not-found-then-found")
            if q.get("src") == final.get("src") and q.get("dst") == final.get("dst") or _shares_unit(q, final):
                seen_final = True
    rf = _exec_query(sw, final) if synth.valid_query(sw, final) else None
    if out is not None and rf is not None:
        if rf[0] != "exc" and repr((final.get("src"), final.get("dst"), final.get("kind"))) in notfound and "not-found-then-found" not in out.classes:
            out.classes.append("not-found-then-found")
        _linked_clause(out, sw, final, rf, edges, "final")
    return rf, touched_before_decl, sw


def _shares_unit(q, final):
    names = {t[1] for t in final.get("src", []) + final.get("dst", [])}
    return any(t[1] in names for t in q.get("src", []) + q.get("dst", []))


def _linked_clause(out, sw, q, rec, edges, when):
    if q.get("kind") != "in_unit" or rec is None:
        return
    s, d = q["src"], q["dst"]
    if len(s) == 1 and len(d) == 1 and s[0][2] == 1 and d[0][2] == 1 and s[0][1][0] != "X" and d[0][1][0] != "X":
        if _linked(edges, s[0][1], d[0][1]) and rec == ("exc", "ConversionNotFound"):
            out.fail(f"C08:linked-but-not-found:{when}", f"{s[0][1]} and {d[0][1]} are linked by the declarations made so far, but in_unit raised ConversionNotFound ({when} the history)")


def enumerate_cases(tier):
    """an equivalence stated twice with the same number written in two numeric types (8.0 then
    Decimal('8'), 2.5 then Decimal('2.5'), 3 then 3.0 ...), with and without a conversion over that
    pair in between; a second, unrelated declaration may follow the restatement"""
    out = []
    for R in ("8", "0.25", "2.5", "3", "0.1", "1024"):
        for first, second in (("float", "dec"), ("dec", "float"), ("int", "dec"), ("dec", "int"), ("float", "int")):
            if "int" in (first, second) and "." in R:
                continue
            for mag in ({"t": "float", "v": 0.1}, {"t": "int", "v": 3}, {"t": "dec", "v": "0.7"}):
                for kind in ("in_unit", "add", "m_add"):
                    for tail in (False, True):
                        out.append({"restate": R, "types": [first, second], "mag": mag, "kind": kind, "unrelated_after": tail})
    # a unit of a derived dimension takes part in conversions (as a bystander factor, or as the
    # subject of a conversion that fails) BEFORE its expansion into base units is declared
    for dim in ("Area", "Volume", "Speed", "Force"):
        for early in ("bystander", "failed", "both", "compare"):
            for kind in ("in_unit", "eq", "add"):
                out.append({"late": dim, "early": early, "kind": kind})
    # two unrelated pairs of units whose ratios are equal numbers written in different numeric types
    # (an "echo"): conversions over powers of the first pair, then the final query over the second
    for R in ("4", "2.5", "0.25", "10"):
        for first, second in (("float", "dec"), ("dec", "float"), ("int", "dec"), ("dec", "int"), ("int", "float")):
            if "int" in (first, second) and "." in R:
                continue
            for mag in ({"t": "float", "v": 1.5}, {"t": "int", "v": 3}, {"t": "dec", "v": "0.7"}):
                for e in (1, 2, 3, -2):
                    out.append({"echo": R, "types": [first, second], "mag": mag, "e": e})
    return out


def _run_late(case, out):
    from ..world import World

    def history(with_early):
        w = World([])
        m = w.m
        la, lb, ma, mb, t = (m.Unit.define(d, n, n) for d, n in ((m.Length, "la"), (m.Length, "lb"), (m.Mass, "ma"), (m.Mass, "mb"), (m.Time, "tt")))
        lb.equals(0.25 * la)
        mb.equals(0.5 * ma)
        dim = getattr(m, case["late"])
        x = m.Unit.define(dim, "xlate", "xlate")
        expa = {"Area": la**2, "Volume": la**3, "Speed": la / t, "Force": ma * la / t**2}[case["late"]]
        expb = {"Area": lb**2, "Volume": lb**3, "Speed": lb / t, "Force": mb * lb / t**2}[case["late"]]
        if with_early:
            early = []
            if case["early"] in ("bystander", "both"):
                early += [lambda: (1 * x * la).in_unit(x * lb), lambda: (2 * x / t).in_unit(x / t)]
            if case["early"] in ("failed", "both"):
                early += [lambda: (1 * x).in_unit(expb), lambda: (1 * expa).in_unit(x)]
            if case["early"] == "compare":
                early += [lambda: (1 * x) == (1 * expb), lambda: (1 * x * la) == (1 * x * lb)]
            for q in early:
                try:
                    q()
                except Exception:  # noqa -- nothing is declared about x yet: what these do is not the subject here (C07's)
                    pass
        x.equals(3 * expa)
        res = []
        for src, dst in ((x, expb), (expb, x), (x * la, expb * lb)):
            try:
                if case["kind"] == "in_unit":
                    r = (1 * src).in_unit(dst)
                    res.append((type(r.magnitude).__name__, repr(r.magnitude)))
                elif case["kind"] == "eq":
                    res.append(("b", (1 * src) == (1 * dst), (1 * src) < (1 * dst)))
                else:
                    r = (1 * dst) + (1 * src)
                    res.append((type(r.magnitude).__name__, repr(r.magnitude)))
            except Exception as ex:  # noqa
                res.append(("exc", type(ex).__name__))
        return res

    try:
        ra, rb = history(True), history(False)
    finally:
        from ..world import shared_world
        shared_world()
    out.classes.append("late-expansion")
    out.classes.append("query-before-declaration")
    if ra != rb:
        out.fail("C08:history-dependence:late-expansion", f"a unit of dimension {case['late']} used ({case['early']}) before its expansion is declared: afterwards the final queries ({case['kind']}) give {ra}, with the declarations alone they give {rb}")
    out.nontrivial = core.case_hash(case)
    out.sample = {"late": case["late"], "early": case["early"], "outcome": rb}


def _run_echo(case, out):
    from decimal import Decimal

    from ..world import World

    def num(t, text):
        return {"float": float, "dec": Decimal, "int": lambda x: int(float(x))}[t](text)

    e = int(case["e"])

    def history(queries_first):
        w = World([])
        m = w.m
        a, b, c, d = (m.Unit.define(m.Length, n, n) for n in ("ea", "eb", "ec", "ed"))
        a.equals(num(case["types"][0], case["echo"]) * b)
        c.equals(num(case["types"][1], case["echo"]) * d)
        mag = convgen.mag_value(case["mag"])
        if queries_first:
            for k in (1, 2, 3, -2, e):
                (mag * a**k).in_unit(b**k)
                (mag * b**k).in_unit(a**k)
        res = []
        for src, dst in ((c**e, d**e), (d**e, c**e)):
            try:
                r = (mag * src).in_unit(dst)
                res.append((type(r.magnitude).__name__, repr(r.magnitude)))
            except Exception as ex:  # noqa
                res.append(("exc", type(ex).__name__))
        return res

    try:
        ra, rb = history(True), history(False)
    finally:
        from ..world import shared_world
        shared_world()
    out.classes.append("echo-declarations")
    if ra != rb:
        out.fail("C08:history-dependence:echo", f"two pairs with the ratio {case['echo']} written as {case['types'][0]} and as {case['types'][1]}: after conversions over the first pair the second pair's query (power {e}) gives {ra}, alone it gives {rb} (magnitude {case['mag']})")
    out.nontrivial = core.case_hash(case)
    out.sample = {"echo": case["echo"], "types": case["types"], "outcome": rb}


def _run_restated(case, out):
    from decimal import Decimal

    from ..world import World

    def num(t, text):
        return {"float": float, "dec": Decimal, "int": lambda x: int(float(x))}[t](text)

    def history(query_between):
        w = World([])
        m = w.m
        a, b, c = (m.Unit.define(m.Length, n, n) for n in ("ra", "rb", "rc"))
        a.equals(num(case["types"][0], case["restate"]) * b)
        mag = convgen.mag_value(case["mag"])
        if query_between:
            (3 * a).in_unit(b)
            (mag * b).in_unit(a)
            (2 * a) == (2 * b)
        a.equals(num(case["types"][1], case["restate"]) * b)
        if case.get("unrelated_after") and query_between:
            (5 * a).in_unit(b)
        res = []
        for src, dst in ((a, b), (b, a)):
            q = mag * src
            try:
                if case["kind"] == "in_unit":
                    r = q.in_unit(dst)
                elif case["kind"] == "add":
                    r = (1 * dst) + q
                else:
                    r = (m.Measurement(1 * dst, 0.5) + m.Measurement(q, 0.25)).measurand
                res.append((type(r.magnitude).__name__, repr(r.magnitude)))
            except Exception as e:  # noqa
                res.append(("exc", type(e).__name__))
        return res

    try:
        ra, rb = history(True), history(False)
    finally:
        from ..world import shared_world
        shared_world()
    out.classes.append("restated-equivalence")
    out.classes.append("redeclaration")
    if ra != rb:
        out.fail("C08:history-dependence:restated", f"{case['restate']} stated as {case['types'][0]} and again as {case['types'][1]}: with conversions in between the final queries give {ra}, the same declarations alone give {rb} ({case['kind']}, magnitude {case['mag']})")
    out.nontrivial = core.case_hash(case)
    out.sample = {"restated": case["restate"], "types": case["types"], "outcome": rb}


def run_case(case) -> core.Outcome:
    out = core.Outcome()
    if isinstance(case, dict) and ("restate" in case or "echo" in case or "late" in case):
        try:
            (_run_restated if "restate" in case else _run_echo if "echo" in case else _run_late)(case, out)
        except (KeyError, ValueError, TypeError, IndexError):
            out.invalid = True
        return out
    try:
        spec, steps, final = case["world"], case["steps"], case["final"]
        if not synth.valid_spec(spec) or not isinstance(steps, list) or not isinstance(final, dict):
            raise ValueError
        for s in steps:
            if s[0] not in ("decl", "redecl", "query"):
                raise ValueError
            if s[0] == "redecl" and not (isinstance(s[2], list) and len(s[2]) == 2 and all(isinstance(x, int) and x > 0 for x in s[2])):
                raise ValueError
    except Exception:
        out.invalid = True
        return out
    ra, touched, swa = _run_world(spec, steps, final, True, out)
    rb, _, _ = _run_world(spec, steps, final, False, None)
    nq = sum(1 for s in steps if s[0] == "query")
    out.classes.append(f"queries:{min(nq, 4)}{'+' if nq >= 4 else ''}")
    if ra is None or rb is None:
        out.invalid = True
        out.failures = []
        return out
    out.classes.append(f"final:{ra[0]}" + (":" + ra[1] if ra[0] == "exc" else ""))
    if not _same(ra, rb):
        kind = "stale-not-found" if ra == ("exc", "ConversionNotFound") else ("stale-value" if ra[0] == "v" and rb[0] == "v" else "other")
        out.fail(f"C08:history-dependence:{kind}", f"after the interleaved history the final query gives {ra}; the same declarations in a fresh world give {rb}; final={final}")
    if touched and len(SUBPROCESS_SAMPLE) < 40 and core.case_size(case) < 6000:
        SUBPROCESS_SAMPLE.append((case, rb))
    if touched:
        out.classes.append("query-before-declaration")
        out.nontrivial = core.case_hash(case)
        out.sample = {"units": len(swa.units), "steps": [s[0] if s[0] != "query" else f"query:{s[1].get('kind')}" for s in steps], "final": final, "outcome": list(map(str, ra))}
    if any(s[0] == "redecl" for s in steps):
        out.classes.append("redeclaration")
        k = next(i for i, s in enumerate(steps) if s[0] == "redecl")
        if any(s[0] == "query" and s[1].get("src") == final.get("src") and s[1].get("dst") == final.get("dst") for s in steps[:k]):
            out.classes.append("redeclared-pair-queried-before:" + str(final.get("kind")))
    return out


def worker_post(tier, col):
    """the in-process 'fresh world' stands for a fresh process: re-derive the declarations-only
    verdict of a sample of histories in real subprocesses (one interpreter per history) and
    compare"""
    import json
    import os
    import subprocess
    import sys
    import tempfile

    global SUBPROCESS_SAMPLE
    sample, SUBPROCESS_SAMPLE = SUBPROCESS_SAMPLE[: (4 if tier == "quick" else 40)], []
    checked = 0
    for case, rb in sample:
        with tempfile.NamedTemporaryFile("w", suffix=".json", delete=False) as fh:
            json.dump([case], fh)
            path = fh.name
        try:
            env = dict(os.environ, PYTHONHASHSEED="0", PYTHONPATH=core.ROOT + os.pathsep + os.environ.get("PYTHONPATH", ""))
            p = subprocess.run([sys.executable, "-m", "vf.props.c08_exec", path, "plain"], capture_output=True, text=True, env=env, cwd=core.ROOT, timeout=120)
            if p.returncode != 0:
                raise RuntimeError(f"c08_exec failed: {p.stderr[-800:]}")
            got = json.loads(p.stdout)[0]
        finally:
            os.unlink(path)
        want = None if rb is None else [rb[0]] + [repr(x) for x in rb[1:]]
        checked += 1
        if got != want:
            o = core.Outcome()
            o.fail("C08:fresh-world-differs-from-fresh-process", f"declarations-only verdict in a fresh subprocess is {got}, in the in-process fresh world {want}")
            col.add(case, o)
            col.evaluations -= 1
    col.extra["world_B_verdicts_revalidated_in_subprocesses"] = col.extra.get("world_B_verdicts_revalidated_in_subprocesses", 0) + checked


def still_fails(case, bucket):
    return any(f.bucket == bucket for f in run_case(case).failures)


def vacuity(col):
    missing = [k for k in ("query-before-declaration", "redeclaration", "final:v", "not-found-then-found") if not col.classes.get(k)]
    return missing or None
