"""C14 -- uncertainty propagates by first-order Gaussian rules for independent inputs.

One generated case = one operation ``a op b`` (``+ - * /``) or ``a ** n`` whose operands
are Measurements or plain Quantities (at least one Measurement; never the same object
twice, so the inputs are independent), written in single-term length / mass / time units
with registered prefixes.  Every case is executed twice: as written, and with every
operand *re-expressed by the oracle* (exact size ratio, rounded once) in another
convertible unit.

Oracle (never uses the library's arithmetic): SI values in ``fractions.Fraction`` from the
exact size oracle (vf.sizes), analytic partial derivatives, and
sigma_f = sqrt(sum((df/dx_i * sigma_i)^2)) with a 50-digit ``Decimal`` square root.

Clauses (one bucket family each, per operator):
  measurand     result.measurand has the SI value of the library's own plain-quantity
                operation on the measurands
  sigma         result.uncertainty has the SI value the analytic formula gives
  negative      result.uncertainty.magnitude >= 0
  plain-vs-0    ``q op m`` / ``m op q`` gives what ``Measurement(q, 0) op m`` gives
  unit-dep      the two executions (same physical operands, different units) agree in SI
                (the oracle treats q as sigma = 0 and is unit-free, so these two are
                normally decided by the sigma / measurand clauses of either spelling; the
                direct comparisons are evaluated when those passed, so one root cause is
                not reported under two clauses)
  raises        nothing escapes on the stated domain (zero is excluded only as divisor
                and as base of a non-positive power)

NOT demanded (the statement does not say it): the unit of the result (``+``/``-`` keep the
left operand's unit, ``q + m`` the measurement's), the numeric type of the uncertainty
(``math.sqrt`` turns Decimals into floats), anything about ``number op measurement``.
"""
from __future__ import annotations

import decimal
import math
import zlib
from decimal import Decimal
from fractions import Fraction

from hypothesis import strategies as st

from .. import core, sizes
from ..world import shared_world

ID = "C14"
RULE = (
    "Hypothesis-generated single operations a+b, a-b, a*b, a/b, a**n (n in [-4,4]) over Measurements "
    "and plain Quantities (mm / m-op-q / q-op-m; never both plain), measurand magnitudes int/float/Decimal "
    "of both signs and zero (zero excluded only as divisor and as base of n<=0), sigma >= 0 including 0 "
    "(int/float/Decimal), units = one of {m ft in yd mi | g kg lb oz | s min h d} with a prefix from "
    "{none kilo milli centi micro mega}; +,- draw both operands from one family, *,/ from any two; every "
    "case is run as written and with all operands re-expressed in other units of their families; plus a "
    "fixed grid (signs x sigma-zero x kind x n x unit pairs x types) that is enumerated on every run. "
    "Non-trivial: sigma > 0 on at least one operand, and n not in {0,1,3} for powers; "
    "distinct = (operator, operand kinds, sign pattern, n, unit pair as written)."
)
ASSUMPTIONS = [
    "the exact sizes of the 13 units used are solved from the intercepted shipped declarations (vf.sizes)",
    "tolerance: rel 1e-12 (absolute floor 1e-12 x larger operand for sums/differences; DESIGN 2.9 first said 1e-9); when + or - has to "
    "convert between different base units over shipped definitions: 1e-5 x degree (DESIGN 2.9), i.e. 2e-5 on "
    "the measurand and 4e-5 on the uncertainty (whose square is converted)",
    "the measurand clause takes the library's own plain-quantity operation as reference (as the statement "
    "does); correctness of plain-quantity arithmetic itself is C03/C06",
    "only single operations on freshly built, distinct operand objects are checked: chained results are "
    "correlated and first-order independent propagation does not apply to them",
]

OPS = ("add", "sub", "mul", "div", "pow")
SYMBOL = {"add": "+", "sub": "-", "mul": "*", "div": "/", "pow": "**"}
FAMILIES = (
    ("meter", "foot", "inch", "yard", "mile"),
    ("gram", "kilogram", "pound", "ounce"),
    ("second", "minute", "hour", "day"),
    # the inverse of a time: products with the time family cancel to a bare prefix (kHz x s)
    ("hertz", "fresnel"),
    # information: the byte is 2**3 bits, so an SI prefix on it (and an IEC prefix next to an SI
    # one) leaves a prefix whose exponent is a float after the change of base
    ("bit", "byte"),
)
PREFIXES = ("", "kilo", "milli", "centi", "micro", "mega", "kibi", "mebi")
FAMILY_OF = {u: i for i, fam in enumerate(FAMILIES) for u in fam}

REL = Fraction(1, 10**12)
CONV = Fraction(1, 10**5)
FLOOR = Fraction(1, 10**18)
MAX_ABS = 10**8
MIN_ABS = Fraction(1, 10**8)

CTX = decimal.Context(prec=50)

M = None  # the measured module of the shared world
S = None  # sizes.Sizes
_UNITS = {}


def setup(tier):
    global M, S
    if M is not None:
        return
    w = shared_world()
    S = sizes.Sizes(w, w.m.One)
    M = w.m
    for fam in FAMILIES:
        for name in fam:
            for p in PREFIXES:
                _unit(p, name)


def _unit(prefix, name):
    key = (prefix, name)
    u = _UNITS.get(key)
    if u is None:
        base = M.Unit._by_name[name]
        u = base if prefix == "" else M.Prefix._by_name[prefix] * base
        size = S.unit_size(u, approx_mixed=True)
        if size is None or size <= 0:
            raise RuntimeError(f"size oracle has no size for {prefix}{name}")
        _UNITS[key] = u = (u, size)
    return u


def budget(tier):
    if tier == "quick":
        return {"examples": 5000, "shards": 1}
    return {"examples": 30000, "shards": 16}


# ---------------------------------------------------------------- strategies
# (all strategy objects are built once; building them inside the composite costs 20 ms a case)

_NEG = st.sampled_from([False, False, True])


def _signed(s):
    return st.builds(lambda v, neg: -v if neg else v, s, _NEG)


def _dec_str(lo_exp, hi_exp):
    # mantissa * 10**-k, written out as a decimal string
    return st.builds(lambda mant, k: str(Decimal(mant).scaleb(-k)), st.integers(1, 99999), st.integers(lo_exp, hi_exp))


_MAG_NZ = st.one_of(
    st.builds(lambda v: ["int", v], _signed(st.one_of(st.integers(1, 12), st.integers(1, 1000)))),
    st.builds(
        lambda v: ["float", v],
        _signed(st.one_of(
            st.floats(1e-3, 1e4, allow_nan=False, allow_infinity=False, allow_subnormal=False),
            st.sampled_from([0.5, 1.0, 1.5, 2.0, 2.5, 10.0, 0.1, 0.25]),
        )),
    ),
    st.builds(lambda s, neg: ["dec", "-" + s if neg else s], _dec_str(0, 5), _NEG),
)
_MAG_ZERO = st.sampled_from([["int", 0], ["float", 0.0], ["dec", "0"], ["dec", "0.00"]])
_MAG_ANY = st.one_of(_MAG_NZ, _MAG_NZ, _MAG_NZ, _MAG_NZ, _MAG_NZ, _MAG_NZ, _MAG_ZERO)
_SIGMA_POS = st.one_of(
    st.builds(lambda v: ["int", v], st.integers(1, 20)),
    st.builds(lambda v: ["float", v], st.one_of(
        st.floats(1e-4, 1e2, allow_nan=False, allow_infinity=False, allow_subnormal=False),
        st.sampled_from([0.1, 0.2, 0.5, 1.0, 0.01]),
    )),
    st.builds(lambda v: ["dec", v], _dec_str(1, 6)),
)
_SIGMA = st.one_of(_SIGMA_POS, _SIGMA_POS, _SIGMA_POS, _SIGMA_POS, _SIGMA_POS, st.sampled_from([["int", 0], ["float", 0.0], ["dec", "0"]]))
_PFX = st.sampled_from(("", "", "") + PREFIXES)
_UNIT_IN = [st.builds(lambda p, n: [p, n], _PFX, st.sampled_from(fam)) for fam in FAMILIES]
_FAM = st.integers(0, len(FAMILIES) - 1)
_OP = st.sampled_from(OPS)
_N = st.sampled_from([-4, -3, -2, -1, 0, 1, 2, 2, 3, 4, 4, -2])
_KIND = st.sampled_from(["mm", "mm", "mq", "qm"])
_QUARTER = st.integers(0, 3)
_BOOL = st.booleans()


def _operand(draw, fam, zero_ok, plain, near=None):
    u = draw(_UNIT_IN[fam])
    if near is not None and draw(_QUARTER) == 0:
        u = list(near)  # same unit as the other operand
    o = {"v": draw(_MAG_ANY if zero_ok else _MAG_NZ), "u": u, "alt": draw(_UNIT_IN[fam]), "plain": plain}
    o["s"] = ["int", 0] if plain else draw(_SIGMA)
    return o


_ALIAS = st.integers(0, 7)


@st.composite
def _case(draw):
    op = draw(_OP)
    fa = draw(_FAM)
    if op == "pow":
        n = draw(_N)
        return {"op": op, "n": n, "a": _operand(draw, fa, n > 0, False)}
    fb = fa if op in ("add", "sub") or draw(_BOOL) else draw(_FAM)
    kind = draw(_KIND)
    a = _operand(draw, fa, True, kind == "qm")
    b = _operand(draw, fb, op != "div", kind == "mq", near=a["u"] if fb == fa else None)
    if kind == "mm" and draw(_ALIAS) == 0 and not (op == "div" and Fraction(_number(a["v"], "v")) == 0):
        return {"op": op, "a": a, "b": dict(a), "alias": True}
    return {"op": op, "a": a, "b": b}


def strategy(tier):
    return _case()


def enumerate_cases(tier):
    yield from _alias_cases()
    yield from _grid_cases(tier)


def _grid_cases(tier):
    """A fixed grid that is run on every seed: every operator x sign pattern (incl. zero
    measurands) x sigma zero/non-zero x operand kinds x n, over three unit pairs and the
    three magnitude types."""
    types = ("int", "float", "dec")

    def num(t, v):
        if t == "int":
            return ["int", int(v)]
        if t == "float":
            return ["float", float(v)]
        return ["dec", str(v)]

    pairs = [
        (["", "meter"], ["", "meter"], ["", "foot"], ["kilo", "meter"]),
        (["", "meter"], ["", "foot"], ["centi", "meter"], ["", "inch"]),
        (["kilo", "gram"], ["", "pound"], ["", "kilogram"], ["", "ounce"]),
    ]
    k = 0
    for op in ("add", "sub", "mul", "div"):
        for x in (-2, 0, 3):
            for y in (-5, 0, 4):
                if op == "div" and y == 0:
                    continue
                for sx in (0, 1):
                    for sy in (0, 2):
                        for kind in ("mm", "mq", "qm"):
                            for ua, ub, alta, altb in pairs:
                                k += 1
                                ta, tb, tsa, tsb = types[k % 3], types[(k // 3) % 3], types[(k // 9) % 3], types[(k // 2) % 3]
                                a = {"v": num(ta, x), "s": num(tsa, sx), "u": ua, "alt": alta, "plain": kind == "qm"}
                                b = {"v": num(tb, y), "s": num(tsb, sy), "u": ub, "alt": altb, "plain": kind == "mq"}
                                for o in (a, b):
                                    if o["plain"]:
                                        o["s"] = ["int", 0]
                                yield {"op": op, "a": a, "b": b}
    for x in (-2, 0, 3):
        for sx in (0, 1):
            for n in range(-4, 5):
                if x == 0 and n <= 0:
                    continue
                for u, alt in ((["", "meter"], ["", "foot"]), (["kilo", "meter"], ["", "inch"]), (["", "hour"], ["milli", "second"])):
                    for t in types:
                        k += 1
                        yield {"op": "pow", "n": n, "a": {"v": num(t, x), "s": num(types[k % 3], sx), "u": u, "alt": alt, "plain": False}}
    # the two worked examples of the suite / docstring, and non-integral magnitudes
    for n in range(-4, 5):
        yield {"op": "pow", "n": n, "a": {"v": ["float", 2.5], "s": ["float", 0.1], "u": ["", "meter"], "alt": ["", "yard"], "plain": False}}
        yield {"op": "pow", "n": n, "a": {"v": ["dec", "-0.75"], "s": ["dec", "0.05"], "u": ["", "second"], "alt": ["", "minute"], "plain": False}}


# ---------------------------------------------------------------- case decoding


class _Bad(Exception):
    pass


def _alias_cases():
    """the same Measurement object on both sides of every binary operator"""
    for op in ("add", "sub", "mul", "div"):
        for v, sg in ((["int", 3], ["float", 0.2]), (["float", -2.5], ["float", 0.1]), (["dec", "4.0"], ["dec", "0.5"]), (["int", 7], ["int", 0])):
            for u, alt in ((["", "meter"], ["", "foot"]), (["kilo", "gram"], ["", "pound"])):
                a = {"v": v, "s": sg, "u": u, "alt": alt, "plain": False}
                yield {"op": op, "a": a, "b": dict(a), "alias": True}


def _number(spec, what):
    """JSON number spec -> python number of the stated type"""
    if not isinstance(spec, list) or len(spec) != 2:
        raise _Bad(what)
    t, v = spec
    if t == "int":
        if isinstance(v, bool) or not isinstance(v, int) or abs(v) > MAX_ABS:
            raise _Bad(what)
        return v
    if t == "float":
        if isinstance(v, bool) or not isinstance(v, float) or not math.isfinite(v):
            raise _Bad(what)
        x = v
    elif t == "dec":
        if not isinstance(v, str):
            raise _Bad(what)
        try:
            x = Decimal(v)
        except decimal.InvalidOperation:
            raise _Bad(what)
        if not x.is_finite() or len(x.as_tuple().digits) > 20:
            raise _Bad(what)
    else:
        raise _Bad(what)
    if x != 0 and not (MIN_ABS <= abs(Fraction(x)) <= MAX_ABS):
        raise _Bad(what)
    return x


def _unit_spec(spec):
    if not isinstance(spec, list) or len(spec) != 2 or spec[0] not in PREFIXES or spec[1] not in FAMILY_OF:
        raise _Bad("unit")
    return _unit(spec[0], spec[1])


def _retype(fr, like):
    """The exact value fr written as a magnitude of the same type as ``like`` (rounded once)."""
    if isinstance(like, Decimal):
        return Decimal(fr.numerator) / Decimal(fr.denominator)
    if isinstance(like, int) and fr.denominator == 1 and abs(fr) < 2**53:
        return int(fr)
    return fr.numerator / fr.denominator


VIA_APPROX = [0]


class _Operand:
    __slots__ = ("v", "s", "unit", "size", "plain", "name")

    def __init__(self, v, s, unit, size, plain, name):
        self.v, self.s, self.unit, self.size, self.plain, self.name = v, s, unit, size, plain, name

    def build(self, force_measurement=False):
        q = M.Quantity(self.v, self.unit)
        if self.plain and not force_measurement:
            return q
        if not self.plain and self.s and zlib.crc32(repr((self.v, self.s)).encode()) % 3 == 0:
            # the same measurement obtained from the public approximately() helper (relative
            # tolerance), whenever that reproduces the uncertainty exactly
            try:
                w = self.s / abs(self.v) if self.v else self.s
                obj = M.approximately(q, w)
                got = obj.uncertainty
                if isinstance(obj, M.Measurement) and got.unit is self.unit and type(got.magnitude) is type(M.Measurement(q, self.s).uncertainty.magnitude) \
                        and Fraction(got.magnitude) == Fraction(self.s) and obj.measurand.magnitude == self.v:
                    VIA_APPROX[0] += 1
                    return obj
            except Exception:  # noqa -- approximately() itself is not what this check is about
                pass
        return M.Measurement(q, 0 if self.plain else self.s)

    @property
    def x(self):
        return Fraction(self.v) * self.size

    @property
    def sx(self):
        return Fraction(0) if self.plain else Fraction(self.s) * self.size

    def show(self):
        if self.plain:
            return f"Quantity({self.v!r} {self.name})"
        return f"Measurement({self.v!r} {self.name}, {self.s!r})"


def _operand_pair(spec):
    """-> (operand as written, operand re-expressed in the alternative unit)"""
    if not isinstance(spec, dict):
        raise _Bad("operand")
    v = _number(spec.get("v"), "v")
    s = _number(spec.get("s"), "s")
    plain = spec.get("plain")
    if not isinstance(plain, bool) or s < 0:
        raise _Bad("plain/sigma")
    (u, size), (alt, asize) = _unit_spec(spec.get("u")), _unit_spec(spec.get("alt"))
    if FAMILY_OF[spec["u"][1]] != FAMILY_OF[spec["alt"][1]]:
        raise _Bad("alt family")
    first = _Operand(v, s, u, size, plain, "".join(spec["u"]))
    k = size / asize
    second = _Operand(_retype(Fraction(v) * k, v), _retype(Fraction(s) * k, s), alt, asize, plain, "".join(spec["alt"]))
    return first, second


def _decode(case):
    if not isinstance(case, dict) or case.get("op") not in OPS:
        raise _Bad("op")
    op = case["op"]
    a = _operand_pair(case.get("a"))
    if op == "pow":
        n = case.get("n")
        if isinstance(n, bool) or not isinstance(n, int) or not -4 <= n <= 4:
            raise _Bad("n")
        if a[0].plain or (n <= 0 and a[0].v == 0):
            raise _Bad("pow domain")
        return op, n, a, None
    b = _operand_pair(case.get("b"))
    if a[0].plain and b[0].plain:
        raise _Bad("both plain")
    if op in ("add", "sub") and FAMILY_OF[case["a"]["u"][1]] != FAMILY_OF[case["b"]["u"][1]]:
        raise _Bad("families")
    if op == "div" and b[0].v == 0:
        raise _Bad("zero divisor")
    return op, None, a, b


# ---------------------------------------------------------------- oracle


def _sqrt(fr):
    if fr == 0:
        return Fraction(0)
    d = CTX.divide(Decimal(fr.numerator), Decimal(fr.denominator))
    return Fraction(CTX.sqrt(d))


def _expected(op, n, A, B):
    """-> (exact SI measurand, SI sigma to 50 digits, scale for absolute floors)"""
    x, sx = A.x, A.sx
    if op == "pow":
        ev = x**n
        es = abs(n * x ** (n - 1) * sx) if n != 0 else Fraction(0)
        return ev, es, abs(ev)
    y, sy = B.x, B.sx
    if op in ("add", "sub"):
        ev = x + y if op == "add" else x - y
        return ev, _sqrt(sx**2 + sy**2), max(abs(x), abs(y))
    if op == "mul":
        ev = x * y
        return ev, _sqrt((y * sx) ** 2 + (x * sy) ** 2), abs(ev)
    ev = x / y
    return ev, _sqrt((sx / y) ** 2 + (x * sy / y**2) ** 2), abs(ev)


def _apply(op, n, a, b):
    if op == "add":
        return a + b
    if op == "sub":
        return a - b
    if op == "mul":
        return a * b
    if op == "div":
        return a / b
    return a**n


def _si(q):
    """SI value of a library quantity through the size oracle; None when not finite."""
    mag = q.magnitude
    if isinstance(mag, float) and not math.isfinite(mag):
        return None
    if isinstance(mag, Decimal) and not mag.is_finite():
        return None
    size = S.unit_size(q.unit, approx_mixed=True)
    if size is None:
        raise RuntimeError(f"no size for result unit {q.unit}")
    return Fraction(mag) * size


def _f(fr):
    try:
        return f"{float(fr):.12g}"
    except OverflowError:
        return str(fr)


class _Run:
    __slots__ = ("ok", "mv", "sv", "tol_m", "tol_s", "scale", "es", "text")


ALIAS = [False]


def _one_run(out, fails, op, n, A, B, tag):
    """Executes one spelling of the case and judges it against the oracle."""
    run = _Run()
    run.ok = False
    sym = SYMBOL[op]
    run.text = f"{A.show()} {sym} {n if op == 'pow' else B.show()}"
    text = f"[{tag}] {run.text}"
    ev, es, scale = _expected(op, n, A, B)
    zero = A.v == 0 or (B is not None and B.v == 0)
    cross = op in ("add", "sub") and _base_of(A.unit) is not _base_of(B.unit)
    run.tol_m = 2 * CONV if cross else REL
    run.tol_s = 4 * CONV if cross else REL
    run.scale, run.es = scale, es

    try:
        if ALIAS[0] and B is not None and not A.plain and not B.plain:
            # the very same Measurement object on both sides: the library tracks no
            # correlations, so the documented rule for independent inputs applies as well
            obj = A.build()
            r = _apply(op, n, obj, obj)
        else:
            r = _apply(op, n, A.build(), None if B is None else B.build())
    except Exception as e:  # noqa: BLE001 -- every escaping exception is a verdict
        if zero and isinstance(e, (ZeroDivisionError, decimal.InvalidOperation)):
            fails(f"C14:{op}:zero-measurand:ZeroDivisionError", f"{text} raised {type(e).__name__}: {e} at {core.innermost_frame(e)}; expected measurand {_f(ev)}, sigma {_f(es)} (SI)")
        else:
            units = [A.unit] + ([] if B is None else [B.unit])
            mixed = ":mixed-base" if any(isinstance(u.prefix.exponent, float) for u in units) else ""
            fails(f"C14:{op}:raises:{type(e).__name__}@{core.innermost_frame(e)}{mixed}", f"{text} raised {type(e).__name__}: {e}")
        return run
    if not isinstance(r, M.Measurement):
        fails(f"C14:{op}:result-type", f"{text} returned {type(r).__name__}, not a Measurement")
        return run

    run.mv, run.sv = _si(r.measurand), _si(r.uncertainty)
    if run.mv is None or run.sv is None:
        out.inconclusive = "float-range"
        return run
    run.ok = True

    # the uncertainty is never negative
    if r.uncertainty.magnitude < 0:
        fails(f"C14:{op}:negative-uncertainty", f"{text}: uncertainty {r.uncertainty.magnitude!r}")
        run.ok = False

    # measurand = the same operation on the plain quantities (the library's own)
    try:
        plain = _apply(op, n, M.Quantity(A.v, A.unit), None if B is None else M.Quantity(B.v, B.unit))
        pv = _si(plain)
    except Exception as e:  # noqa: BLE001
        plain, pv = None, None
        fails(f"C14:{op}:plain-operation-raises:{type(e).__name__}@{core.innermost_frame(e)}", f"{text}: the plain-quantity operation raised {type(e).__name__}: {e}, the measurement operation did not")
        run.ok = False
    if pv is not None and abs(run.mv - pv) > run.tol_m * scale:
        fails(f"C14:{op}:measurand", f"{text}: measurand {r.measurand.magnitude!r} {r.measurand.unit} = {_f(run.mv)} SI, plain-quantity operation gives {plain.magnitude!r} {plain.unit} = {_f(pv)} SI (exact {_f(ev)})")
        run.ok = False

    # sigma_f = sqrt(sum((df/dx_i sigma_i)^2))
    if abs(abs(run.sv) - es) > run.tol_s * es + FLOOR * scale:
        fails(f"C14:{op}:sigma", f"{text}: uncertainty {r.uncertainty.magnitude!r} {r.uncertainty.unit} = {_f(run.sv)} SI, first-order propagation gives {_f(es)} SI (measurand {_f(ev)} SI)")
        run.ok = False

    # a plain quantity behaves as a measurement with zero uncertainty.  The oracle above
    # already treats q as sigma = 0, so a disagreement here normally shows as a sigma /
    # measurand failure of one of the two spellings; the direct comparison is made when
    # this spelling passed, so that one root cause is not reported under two clauses.
    if run.ok and (A.plain or (B is not None and B.plain)):
        try:
            r0 = _apply(op, n, A.build(True), None if B is None else B.build(True))
            m0, s0 = _si(r0.measurand), _si(r0.uncertainty)
        except Exception as e:  # noqa: BLE001
            units = [A.unit] + ([] if B is None else [B.unit])
            if any(isinstance(u.prefix.exponent, float) for u in units):
                # the measurement spelling of the same operands raises: the same verdict as when both were written as measurements
                fails(f"C14:{op}:raises:{type(e).__name__}@{core.innermost_frame(e)}:mixed-base", f"{text} returned a value but with Measurement(q, 0) in place of q it raised {type(e).__name__}: {e}")
            else:
                fails(f"C14:{op}:plain-vs-zero-sigma", f"{text} returned a value but with Measurement(q, 0) in place of q it raised {type(e).__name__}: {e}")
            run.ok = False
        else:
            if m0 is None or s0 is None:
                out.inconclusive = "float-range"
            elif abs(m0 - run.mv) > REL * scale or abs(s0 - run.sv) > REL * max(run.sv, s0) + FLOOR * scale:
                fails(f"C14:{op}:plain-vs-zero-sigma", f"{text} = {_f(run.mv)} +- {_f(run.sv)} SI but with Measurement(q, 0) in place of q: {_f(m0)} +- {_f(s0)} SI")
                run.ok = False
    return run


def _base_of(unit):
    """the single base unit of a one-term unit (prefix ignored)"""
    (f,) = [u for u in unit.factors if u is not M.One]
    return f


def _sign(v):
    return "0" if v == 0 else ("+" if v > 0 else "-")


def _typ(v):
    return "dec" if isinstance(v, Decimal) else type(v).__name__


def run_case(case) -> core.Outcome:
    out = core.Outcome()
    if M is None:
        setup("quick")
    try:
        op, n, (A, A2), bb = _decode(case)
    except _Bad:
        out.invalid = True
        return out
    except (KeyError, TypeError, ValueError, AttributeError, IndexError, OverflowError, decimal.InvalidOperation):
        out.invalid = True
        return out
    B, B2 = bb if bb is not None else (None, None)

    seen = set()

    def fails(bucket, detail):
        if bucket not in seen:
            seen.add(bucket)
            out.fail(bucket, detail)

    alias = bool(isinstance(case, dict) and case.get("alias")) and B is not None and case.get("a") == case.get("b")
    ALIAS[0] = alias
    via0 = VIA_APPROX[0]
    try:
        r1 = _one_run(out, fails, op, n, A, B, "as written" + (", same object on both sides" if alias else ""))
        r2 = _one_run(out, fails, op, n, A2, B2, "re-expressed" + (", same object on both sides" if alias else ""))
    finally:
        ALIAS[0] = False
    if alias:
        out.classes.append("alias:same-object")
    if VIA_APPROX[0] > via0:
        out.classes.append("operand:via-approximately")

    # the result does not depend on the units in which the operands are expressed.  Both
    # runs were judged against one unit-free oracle, so this can only add something when
    # both passed; it is the statement's own clause and costs nothing.
    if r1.ok and r2.ok:
        scale = max(r1.scale, r2.scale)
        if abs(r1.mv - r2.mv) > (r1.tol_m + r2.tol_m) * scale or abs(r1.sv - r2.sv) > (r1.tol_s + r2.tol_s) * max(r1.es, r2.es) + 2 * FLOOR * scale:
            fails(f"C14:{op}:unit-dependence", f"{r1.text} = {_f(r1.mv)} +- {_f(r1.sv)} SI, but {r2.text} = {_f(r2.mv)} +- {_f(r2.sv)} SI")

    # bookkeeping ---------------------------------------------------------------------
    kind = "mm" if B is None or not (A.plain or B.plain) else ("qm" if A.plain else "mq")
    ops = [A] if B is None else [A, B]
    out.classes.append(f"op:{op}")
    out.classes.append(f"kind:{kind}")
    if op == "pow":
        out.classes.append(f"n:{n}")
    for o in ops:
        out.classes.append(f"t:{_typ(o.v)}")
        if not o.plain:
            out.classes.append(f"sigma-t:{_typ(o.s)}")
            out.classes.append("sigma:zero" if o.s == 0 else "sigma:positive")
        out.classes.append("measurand:" + {"0": "zero", "+": "positive", "-": "negative"}[_sign(o.v)])
    if any(o.v == 0 for o in ops):
        out.classes.append(f"zero-measurand:{op}")
    for tag, (P, Q) in (("as-written", (A, B)), ("re-expressed", (A2, B2))):
        if Q is None:
            continue
        if P.unit is Q.unit:
            rel = "same-unit"
        elif _base_of(P.unit) is _base_of(Q.unit):
            rel = "prefix-only"
        elif FAMILY_OF[case["a"]["u"][1]] == FAMILY_OF[case["b"]["u"][1]]:
            rel = "cross-unit"
        else:
            rel = "cross-dimension"
        out.classes.append(f"units:{op}:{rel}")
    if A.unit is not A2.unit or (B is not None and B.unit is not B2.unit):
        out.classes.append("re-expressed-differs")

    positive = any((not o.plain) and o.s > 0 for o in ops)
    if positive and (op != "pow" or n not in (0, 1, 3)):
        signs = "".join(_sign(o.v) for o in ops)
        out.nontrivial = f"{op}|{kind}|{signs}|{n if op == 'pow' else ''}|{A.name}|{B.name if B is not None else ''}"
        out.sample = {"as_written": r1.text, "re_expressed": r2.text}
    return out


def still_fails(case, bucket):
    return any(f.bucket == bucket for f in run_case(case).failures)


REQUIRED = (
    [f"op:{op}" for op in OPS]
    + ["kind:mm", "kind:mq", "kind:qm"]
    + [f"n:{n}" for n in range(-4, 5)]
    + ["t:int", "t:float", "t:dec", "sigma-t:int", "sigma-t:float", "sigma-t:dec"]
    + ["sigma:zero", "sigma:positive", "measurand:zero", "measurand:negative", "measurand:positive"]
    + ["zero-measurand:add", "zero-measurand:sub", "zero-measurand:mul", "zero-measurand:div", "zero-measurand:pow"]
    + ["units:add:cross-unit", "units:sub:cross-unit", "units:add:prefix-only", "units:mul:cross-dimension", "units:div:cross-unit", "re-expressed-differs"]
)


def vacuity(col):
    return [c for c in REQUIRED if not col.classes.get(c)]
