"""C02 -- dimensions, prefixes and units are canonical objects forming abelian groups.

Generated: pairs of expression trees over registered / freshly defined units with
registered prefixes (and separately over dimensions and over same-base prefixes).  With
probability 1/2 the second tree is a *rewriting* of the first by group laws (commute,
reassociate, a/b <-> a*b**-1, x**a*x**b <-> x**(a+b), (x**a)**b <-> x**(a*b), *One,
*y/y, (x**n).root(n)), so equal-valued pairs are constructed rather than waited for.
Oracle: the free-abelian-group normal form of vf.model (never looks at the library's
arithmetic); same normal form => identical object, different => different object;
library factors / prefix / dimension must equal the model's.
"""
from __future__ import annotations

import math
from fractions import Fraction

from hypothesis import strategies as st

from .. import core, model
from ..world import shared_world

ID = "C02"
RULE = (
    "Hypothesis-generated pairs of expression trees (depth<=4; operators * / **n root) over all "
    "registered units, 3 freshly defined base units, One and all registered prefixes; separate "
    "tree families over dimensions and over same-base prefixes; 50% of pairs are law-rewritings "
    "of one another; a third of the unit pairs are preceded by read-only uses (as_ratio, format, str, repr, hash, quantify, deepcopy) of relatives of their sub-expressions (inverse, prefixed inverse, prefixed copy, power). Non-trivial: >=3 operators and a normal form other than the identity; "
    "distinct = distinct (family, normal form)."
)
ASSUMPTIONS = [
    "the definitional structure (factors, prefix) of each *named* unit is read from the library once at start-up",
    "identity is only required when every prefix in the tree has the same base (the property's own qualification)",
]

SNAP = None
SEEN = {}
UNIT_NAMES = []
PREFIX_NAMES = []
DIM_LEAVES = []
PFX10 = []
PFX2 = []
PLAIN_UNIT_NAMES = []


def setup(tier):
    global SNAP, UNIT_NAMES, PREFIX_NAMES, DIM_LEAVES, PFX10, PFX2
    if SNAP is not None:
        return
    w = shared_world()
    m = w.m
    SNAP = model.Snapshot(w)
    for name, dim in (("vf02 len", m.Length), ("vf02 nrg", m.Energy), ("vf02 num", m.Number)):
        u = m.Unit.define(dim, name, name.replace(" ", "-"))
        SNAP.register_base(u)
    UNIT_NAMES = sorted(SNAP.units)
    PLAIN_UNIT_NAMES[:] = [n for n in UNIT_NAMES if not SNAP.structure[n][1]]
    PREFIX_NAMES = sorted(n for n in SNAP.prefixes if n)
    PFX10 = sorted(n for n, p in SNAP.prefixes.items() if n and p.base == 10)
    PFX2 = sorted(n for n, p in SNAP.prefixes.items() if n and p.base == 2)
    DIM_LEAVES = sorted(m.Dimension._by_name)


def enumerate_cases(tier):
    return [{"k": "pairs-exhaustive"}]


def _run_pairs(out):
    """every ordered pair of registered (named) units: a*b is b*a, a/b is (b/a)**-1,
    (a*b)/b is a, a*b has the merged factors of the model"""
    m = SNAP.m
    names = [n for n in UNIT_NAMES]
    units = [SNAP.units[n] for n in names]
    structs = [SNAP.structure[n] for n in names]
    n_pairs = 0
    for i, a in enumerate(units):
        for j in range(i, len(units)):
            b = units[j]
            n_pairs += 1
            ab, ba = a * b, b * a
            q1, q2 = a / b, (b / a) ** -1
            mv = model.m_mul(structs[i], structs[j])
            mixed = len(set(structs[i][1]) | set(structs[j][1])) > 1
            if mixed:
                # prefixes of different bases: the laws hold for the numeric scale only
                for tag, x, y in (("pair-commute", ab, ba), ("pair-inverse", q1, q2)):
                    sx, sy = float(x.prefix.quantify()), float(y.prefix.quantify())
                    if dict(x.factors) != dict(y.factors) or abs(sx - sy) > 1e-9 * max(abs(sx), abs(sy)):
                        out.fail(f"C02:unit:{tag}:mixed-scale", f"{names[i]} and {names[j]}: the two spellings differ in scale ({sx!r} vs {sy!r}) or factors")
                continue
            if ab is not ba:
                out.fail("C02:unit:pair-commute", f"{names[i]} * {names[j]} is not {names[j]} * {names[i]}")
            if q1 is not q2:
                out.fail("C02:unit:pair-inverse", f"{names[i]} / {names[j]} is not ({names[j]} / {names[i]})**-1")
            got = SNAP.describe(ab)
            if got[0] != mv[0] or any(type(e) is not int for e in got[0].values()):
                out.fail("C02:unit:pair-factors", f"{names[i]} * {names[j]}: factors {got[0]} != model {mv[0]}")
            if (ab / b) is not a:
                out.fail("C02:unit:pair-cancel", f"({names[i]} * {names[j]}) / {names[j]} is not {names[i]}")
        if len(out.failures) > 30:
            break
    out.classes.append("pairs-exhaustive")
    out.nontrivial = "pairs-exhaustive"
    out.sample = {"ordered_pairs_of_named_units": n_pairs}


def budget(tier):
    if tier == "quick":
        return {"examples": 1500, "shards": 1}
    return {"examples": 30000, "shards": 16}


# ---------------------------------------------------------------- strategies

EXPS = st.sampled_from([-4, -3, -2, -1, 0, 1, 2, 2, 3, 4])
NZ = st.sampled_from([-3, -2, -1, 2, 3, 4])
# exponents that take a prefix's scale out of the range of a float (10**-336, 2**1200 ...): prefix
# arithmetic is arithmetic on exponents and must not care
BIG = st.sampled_from([-40, -25, -14, -13, -10, -5, 5, 10, 13, 14, 25, 40])
# exponents beyond 2**53, where a float no longer holds every integer: exponent arithmetic is
# integer arithmetic and (x**(h*n)).root(n) is x**h all the same
HUGE = st.sampled_from([2**53 + 1, -(2**53 + 1), 2**53 + 3, 3 * 2**52 + 1, 2**64 + 3, -(2**61) - 1])


def _leaf(kind):
    if kind == "unit":
        return st.one_of(
            st.builds(lambda n: ["u", n], st.sampled_from(UNIT_NAMES)),
            st.builds(lambda p, n: ["p", p, ["u", n]], st.sampled_from(PREFIX_NAMES), st.sampled_from(UNIT_NAMES)),
            st.builds(lambda p, n: ["p", p, ["u", n]], st.sampled_from(PFX10), st.sampled_from(UNIT_NAMES)),
            st.just(["one"]),
        )
    if kind == "dim":
        return st.builds(lambda n: ["u", n], st.sampled_from(DIM_LEAVES))
    if kind == "p10":
        return st.builds(lambda n: ["u", n], st.sampled_from(PFX10 + [""]))
    if kind == "p2":
        return st.builds(lambda n: ["u", n], st.sampled_from(PFX2 + [""]))
    raise ValueError(kind)


def _tree(kind, depth):
    if depth == 0:
        return _leaf(kind)
    sub = _tree(kind, depth - 1)
    ops = [
        _leaf(kind),
        st.builds(lambda a, b: ["*", a, b], sub, sub),
        st.builds(lambda a, b: ["/", a, b], sub, sub),
        st.builds(lambda a, n: ["^", a, n], sub, EXPS),
        st.builds(lambda a, n: ["r", ["^", a, n], n], sub, NZ),
        # the root of a product of powers: the root may be the first expression of the process
        # to denote its result, and whatever it builds is the interned object from then on
        st.builds(lambda a, b, n: ["r", ["*", ["^", a, n], ["^", b, n]], n], sub, sub, NZ),
        st.builds(lambda a, b, n: ["r", ["/", ["^", a, n], ["^", b, n]], n], _leaf(kind), _leaf(kind), NZ),
    ]
    ops.append(st.builds(lambda a, n: ["^", a, n], _leaf(kind), BIG))
    # (on units: only leaves without any prefix, so that nothing ever has to compute 10**(2**53))
    huge_leaf = _leaf(kind) if kind != "unit" else st.builds(lambda n: ["u", n], st.sampled_from(PLAIN_UNIT_NAMES))
    ops.append(st.builds(lambda a, h, n: ["r", ["^", a, h * n], n], huge_leaf, HUGE, NZ))
    if kind == "unit":
        ops.append(st.builds(lambda p, a: ["p", p, a], st.sampled_from(PFX10), sub))
        # prefixes of the two bases meeting, one side at an extreme scale, in both orders
        ops.append(st.builds(lambda p, a, q, b, n, flip: ["*", ["^", ["p", q, b], n], ["p", p, a]] if flip else ["*", ["p", p, a], ["^", ["p", q, b], n]],
                             st.sampled_from(PREFIX_NAMES), _leaf(kind), st.sampled_from(PREFIX_NAMES), _leaf(kind), BIG, st.booleans()))
        # dimensionless units that still carry a prefix ((k*x)/x, k*One) and their powers
        ops.append(st.builds(lambda p, a, n: ["^", ["/", ["p", p, a], a], n], st.sampled_from(PREFIX_NAMES), _leaf(kind), EXPS))
        ops.append(st.builds(lambda p, n: ["^", ["p", p, ["one"]], n], st.sampled_from(PREFIX_NAMES), EXPS))
        # a prefixed factor (of either prefix base) multiplied in and divided out again
        ops.append(st.builds(lambda a, p, n: ["/", ["*", a, ["p", p, ["u", n]]], ["p", p, ["u", n]]], sub, st.sampled_from(PREFIX_NAMES), st.sampled_from(UNIT_NAMES)))
    return st.one_of(ops)


@st.composite
def _rewrite(draw, kind, t, fuel=6):
    """A tree with the same group value as t, produced by law rewritings."""
    op = t[0]
    choice = draw(st.integers(0, 9)) if fuel > 0 else 99
    if op in ("*", "/"):
        a = draw(_rewrite(kind, t[1], fuel - 1))
        b = draw(_rewrite(kind, t[2], fuel - 1))
        if op == "*":
            if choice == 0:
                return ["*", b, a]
            if choice == 1:
                return ["/", a, ["^", b, -1]]
            if choice == 2 and b[0] == "*":
                return ["*", ["*", a, b[1]], b[2]]
            if choice == 3 and a[0] == "*":
                return ["*", a[1], ["*", a[2], b]]
            return ["*", a, b]
        if choice == 0:
            return ["*", a, ["^", b, -1]]
        if choice == 1:
            return ["^", ["/", b, a], -1]
        if choice == 2:
            return ["*", ["^", b, -1], a]
        return ["/", a, b]
    if op == "^":
        n = t[2]
        a = draw(_rewrite(kind, t[1], fuel - 1))
        if choice == 0 and n not in (0,):
            k = draw(st.sampled_from([1, 2, -1]))
            return ["*", ["^", a, n - k], ["^", a, k]]
        if choice == 1 and n % 2 == 0 and n != 0:
            return ["^", ["^", a, 2], n // 2]
        if choice == 2:
            return ["^", ["^", a, -1], -n]
        if choice == 3 and a[0] == "*":
            return ["*", ["^", a[1], n], ["^", a[2], n]]
        return ["^", a, n]
    if op == "r":
        return ["r", draw(_rewrite(kind, t[1], fuel - 1)), t[2]]
    if op == "p":
        a = draw(_rewrite(kind, t[2], fuel - 1))
        if choice == 0 and kind == "unit":
            # p*(x) == (p*One)*x
            return ["*", ["p", t[1], ["one"]], a]
        return ["p", t[1], a]
    # leaf
    if choice == 0:
        one = ["one"] if kind == "unit" else ["u", "number" if kind == "dim" else ""]
        return ["*", t, one]
    if choice == 1:
        y = draw(_leaf(kind))
        return ["/", ["*", t, y], y]
    if choice == 2:
        n = draw(NZ)
        return ["r", ["^", t, n], n]
    if choice == 3:
        y = draw(_leaf(kind))
        return ["*", ["*", y, t], ["^", y, -1]]
    return t


@st.composite
def _pair(draw, kind):
    depth = draw(st.integers(1, 4))
    a = draw(_tree(kind, depth))
    if draw(st.booleans()):
        b = draw(_rewrite(kind, a))
        rel = "rewrite"
    else:
        b = draw(_tree(kind, draw(st.integers(0, 3))))
        rel = "independent"
    case = {"k": kind, "rel": rel, "a": a, "b": b}
    if kind == "unit" and draw(st.integers(0, 2)) == 0:
        case["pre"] = draw(_observations(a, b))
    return case


def _has_huge(t):
    if t[0] in "^r":
        return abs(t[2]) > 1000 or _has_huge(t[1])
    return any(_has_huge(x) for x in t[1:] if isinstance(x, list))


def _subtrees(t, acc, divisor=False):
    op = t[0]
    if _has_huge(t):
        return acc
    if op in ("*", "/", "^", "r", "p"):
        acc.append((t, divisor))
    if op in "*/":
        _subtrees(t[1], acc)
        _subtrees(t[2], acc, op == "/")
    elif op in "^r":
        _subtrees(t[1], acc)
    elif op == "p":
        _subtrees(t[2], acc)
    elif divisor:
        acc.append((t, True))
    return acc


OBSERVATIONS = ["as_ratio", "format/", "str", "repr", "hash", "quantify", "mathml", "copy"]


@st.composite
def _observations(draw, a, b):
    """Read-only uses of relatives of the pair's sub-expressions (their inverse, a prefixed
    copy, a power), made *before* the pair is evaluated: rendering, splitting into a ratio,
    hashing, quantifying.  None of them may change what any later expression evaluates to."""
    subs = _subtrees(a, []) + _subtrees(b, [])
    if not subs:
        subs = [(a, False)]
    divisors = [s for s in subs if s[1]] or subs
    pre = []
    for _ in range(draw(st.integers(1, 3))):
        s, _d = draw(st.sampled_from(divisors if draw(st.booleans()) else subs))
        shape = draw(st.integers(0, 4))
        if shape == 0:
            t = ["p", draw(st.sampled_from(PFX10)), ["^", s, -1]]
        elif shape == 1:
            t = ["^", s, -1]
        elif shape == 2:
            t = ["p", draw(st.sampled_from(PREFIX_NAMES)), s]
        elif shape == 3:
            t = ["^", s, draw(NZ)]
        else:
            t = ["*", ["p", draw(st.sampled_from(PFX10)), ["one"]], ["^", s, draw(st.sampled_from([-2, -1]))]]
        pre.append([t, draw(st.sampled_from(OBSERVATIONS))])
    return pre


def _observe(obj, how):
    import copy as _copy
    if how == "as_ratio":
        obj.as_ratio()
    elif how == "format/":
        format(obj, "/")
    elif how == "str":
        str(obj)
    elif how == "repr":
        repr(obj)
    elif how == "hash":
        hash(obj)
    elif how == "quantify":
        obj.quantify()
    elif how == "mathml":
        obj._repr_html_()
    elif how == "copy":
        _copy.deepcopy(obj)


@st.composite
def _pair_extreme(draw):
    """Products and quotients of prefixed units of both prefix bases in which some operand's scale
    lies far outside the range of a float, against a rewriting of the same expression."""
    def operand():
        leaf = ["p", draw(st.sampled_from(PREFIX_NAMES)), ["u", draw(st.sampled_from(UNIT_NAMES))]]
        n = draw(st.one_of(BIG, EXPS))
        return leaf if n == 1 else ["^", leaf, n]
    a = operand()
    for _ in range(draw(st.integers(1, 3))):
        b = operand()
        a = [draw(st.sampled_from("*/")), a, b] if draw(st.booleans()) else [draw(st.sampled_from("*/")), b, a]
    return {"k": "unit", "rel": "rewrite", "a": a, "b": draw(_rewrite("unit", a))}


@st.composite
def _pair_observed(draw):
    """x / d (or x * d) for a product d of positive powers that is probably new to the process,
    evaluated only after a prefixed relative of d (p*d**-1, p*d, d**-1, p*One*d**-k) has been
    rendered, split into a ratio, hashed ...: a read-only use of one unit must not change what
    an expression over its factors evaluates to."""
    plain = st.builds(lambda n: ["u", n], st.sampled_from(UNIT_NAMES))
    leaves = [draw(st.one_of(plain, plain, _leaf("unit"))) for _ in range(draw(st.integers(1, 3)))]
    d = None
    for leaf in leaves:
        n = draw(st.sampled_from([1, 1, 2, 3, 4]))
        f = leaf if n == 1 else ["^", leaf, n]
        d = f if d is None else ["*", d, f]
    x = draw(_tree("unit", draw(st.integers(0, 2))))
    a = [draw(st.sampled_from("//*")), x, d]
    pfx = draw(st.sampled_from(PFX10 + PFX2))
    shape = draw(st.integers(0, 3))
    rel = [["p", pfx, ["^", d, -1]], ["p", pfx, d], ["^", d, -1], ["*", ["p", pfx, ["one"]], ["^", d, -2]]][shape]
    pre = [[rel, draw(st.sampled_from(["as_ratio", "format/", "as_ratio", "format/", "str", "mathml", "quantify", "copy"]))]]
    return {"k": "unit", "rel": "rewrite", "a": a, "b": draw(_rewrite("unit", a)), "pre": pre}


def strategy(tier):
    return st.one_of(_pair("unit"), _pair("unit"), _pair("unit"), _pair("dim"), _pair("p10"), _pair("p2"), _pair_extreme(), _pair_observed(), _pair_observed())


# ---------------------------------------------------------------- dimension / prefix interpreters


def _dim_eval(t, m):
    op = t[0]
    if op == "u":
        return m.Dimension._by_name[t[1]]
    if op == "*":
        return _dim_eval(t[1], m) * _dim_eval(t[2], m)
    if op == "/":
        return _dim_eval(t[1], m) / _dim_eval(t[2], m)
    if op == "^":
        return _dim_eval(t[1], m) ** t[2]
    if op == "r":
        return _dim_eval(t[1], m).root(t[2])
    raise ValueError(op)


_DIMVEC = {}


def _dim_model(t, m):
    op = t[0]
    if op == "u":
        if not _DIMVEC:
            # definitional exponent vectors: fundamental dimensions are unit vectors in
            # definition order; named derived dimensions are read once
            for n, d in m.Dimension._by_name.items():
                _DIMVEC[n] = tuple(d.exponents)
        return _DIMVEC[t[1]]
    if op == "*":
        return tuple(x + y for x, y in zip(_dim_model(t[1], m), _dim_model(t[2], m)))
    if op == "/":
        return tuple(x - y for x, y in zip(_dim_model(t[1], m), _dim_model(t[2], m)))
    if op == "^":
        return tuple(x * t[2] for x in _dim_model(t[1], m))
    if op == "r":
        v = _dim_model(t[1], m)
        if t[2] == 0:
            return tuple(0 for _ in v)
        if any(x % t[2] for x in v):
            raise model.NotPerfectPower()
        return tuple(x // t[2] for x in v)
    raise ValueError(op)


def _pfx_eval(t):
    op = t[0]
    if op == "u":
        return SNAP.prefixes[t[1]]
    if op == "*":
        return _pfx_eval(t[1]) * _pfx_eval(t[2])
    if op == "/":
        return _pfx_eval(t[1]) / _pfx_eval(t[2])
    if op == "^":
        return _pfx_eval(t[1]) ** t[2]
    if op == "r":
        return _pfx_eval(t[1]).root(t[2])
    raise ValueError(op)


def _pfx_model(t):
    op = t[0]
    if op == "u":
        return model.m_prefix_of(SNAP.prefixes[t[1]])
    if op in "*/":
        return model.m_mul(({}, _pfx_model(t[1])), ({}, _pfx_model(t[2])), 1 if op == "*" else -1)[1]
    if op == "^":
        return model.m_pow(({}, _pfx_model(t[1])), t[2])[1]
    if op == "r":
        return model.m_root(({}, _pfx_model(t[1])), t[2])[1]
    raise ValueError(op)


def _leaf_bases(t, acc):
    """prefix bases occurring anywhere in a unit tree (through named units too)"""
    op = t[0]
    if op == "u":
        acc.update(SNAP.structure[t[1]][1].keys())
    elif op == "p":
        p = SNAP.prefixes[t[1]]
        if p.base:
            acc.add(p.base)
        _leaf_bases(t[2], acc)
    elif op in "*/":
        _leaf_bases(t[1], acc)
        _leaf_bases(t[2], acc)
    elif op in "^r":
        _leaf_bases(t[1], acc)
    return acc


# ---------------------------------------------------------------- the check


def _eval_side(kind, t, out, tag):
    """returns (library object, normal-form key, mixed?) or None when nothing to compare"""
    m = SNAP.m
    try:
        if kind == "unit":
            mv = SNAP.model(t)
        elif kind == "dim":
            mv = _dim_model(t, m)
        else:
            mv = _pfx_model(t)
    except model.NotPerfectPower:
        out.invalid = True  # generator only builds perfect powers; shrinker may not
        return None
    try:
        if kind == "unit":
            obj = SNAP.build(t)
        elif kind == "dim":
            obj = _dim_eval(t, m)
        else:
            obj = _pfx_eval(t)
    except Exception as e:  # noqa
        mixed = kind == "unit" and len(_leaf_bases(t, set())) > 1
        site = "mixed-base" if mixed else "same-base"
        out.fail(f"C02:{kind}:raises:{type(e).__name__}@{core.innermost_frame(e)}:{site}", f"{tag}={model.render(t)} raised {type(e).__name__}: {e}")
        return None

    if kind == "unit":
        mixed = len(_leaf_bases(t, set())) > 1
        got = SNAP.describe(obj)
        if got[0] != mv[0]:
            out.fail("C02:unit:factors", f"{model.render(t)}: factors {got[0]} != model {mv[0]}")
        elif any(type(e) is not int for e in got[0].values()):
            out.fail("C02:unit:factor-exponent-type", f"{model.render(t)}: factor exponents {got[0]} are not all integers")
        dim = SNAP.model_dim(mv)
        if tuple(obj.dimension.exponents) != dim:
            out.fail("C02:unit:dimension", f"{model.render(t)}: dimension {obj.dimension.exponents} != model {dim}")
        elif obj.dimension is not m.Dimension(dim):
            out.fail("C02:unit:dimension-identity", f"{model.render(t)}: dimension object is not the interned one")
        if not mixed:
            if got[1] != mv[1]:
                out.fail("C02:unit:prefix", f"{model.render(t)}: prefix {got[1]} != model {mv[1]}")
            elif mv[1]:
                (b, e), = mv[1].items()
                if obj.prefix is not m.Prefix(b, int(e)):
                    out.fail("C02:unit:prefix-identity", f"{model.render(t)}: prefix object not interned")
            elif obj.prefix is not m.IdentityPrefix:
                out.fail("C02:unit:prefix-identity", f"{model.render(t)}: identity prefix expected, got {obj.prefix!r}")
        else:
            # compared as logarithms, so that scales beyond the range of a float (10**-336) are
            # decided as well: a relative scale error r is a difference of log(1+r) ~ r
            want = sum(float(e) * math.log(b) for b, e in mv[1].items())
            have = float(obj.prefix.exponent) * math.log(obj.prefix.base) if obj.prefix.base else 0.0
            if abs(want) > 2e4:
                out.inconclusive = "float-range"   # a float exponent no longer resolves 1e-9
            elif not abs(have - want) <= 1e-9:
                out.fail("C02:unit:mixed-prefix-scale", f"{model.render(t)}: log of prefix scale {have!r} ({obj.prefix!r}) vs model {want!r}")
        return obj, model.m_key(mv), mixed, not (mv[0] or mv[1])
    if kind == "dim":
        if tuple(obj.exponents) != tuple(mv):
            out.fail("C02:dim:exponents", f"{model.render(t)}: {obj.exponents} != model {mv}")
        return obj, repr(tuple(mv)), False, not any(mv)
    # prefix families (single base)
    got = model.m_prefix_of(obj)
    if got != mv:
        out.fail(f"C02:{kind}:exponent", f"{model.render(t)}: {got} != model {mv}")
    if mv and not isinstance(obj.exponent, int):
        out.fail(f"C02:{kind}:exponent-type", f"{model.render(t)}: exponent {obj.exponent!r} is not an int")
    return obj, repr(sorted((b, str(e)) for b, e in mv.items())), False, not mv


def run_case(case) -> core.Outcome:
    out = core.Outcome()
    if isinstance(case, dict) and case.get("k") == "pairs-exhaustive":
        _run_pairs(out)
        return out
    try:
        kind, a, b = case["k"], case["a"], case["b"]
        if kind not in ("unit", "dim", "p10", "p2"):
            raise KeyError(kind)
        model.count_ops(a), model.count_ops(b)
    except Exception:
        out.invalid = True
        return out
    if kind == "unit" and case.get("pre"):
        # observations first; what they return or raise is other properties' business
        try:
            for t, how in case["pre"]:
                model.count_ops(t)
                try:
                    _observe(SNAP.build(t), how)
                except (KeyError, IndexError):
                    raise
                except Exception:  # noqa
                    pass
            out.classes.append("observed-first")
        except (KeyError, ValueError, IndexError, TypeError):
            out.invalid = True
            return out
    try:
        ra = _eval_side(kind, a, out, "a")
        rb = _eval_side(kind, b, out, "b")
    except (KeyError, ValueError, IndexError, TypeError):
        out.invalid = True
        out.failures = []
        return out
    if out.invalid:
        out.failures = []
        return out
    out.classes.append(f"{kind}:{case.get('rel')}")
    for r, t in ((ra, a), (rb, b)):
        if r is None:
            continue
        obj, key, mixed, _ident = r
        if mixed:
            out.classes.append("mixed-base")
            continue
        first = SEEN.setdefault((kind, key), (obj, model.render(t)))
        if first[0] is not obj:
            out.fail(f"C02:{kind}:identity", f"{model.render(t)} and {first[1]} have the same normal form {key} but are different objects")
    if ra and rb and not ra[2] and not rb[2]:
        same = ra[1] == rb[1]
        out.classes.append("pair-equal" if same else "pair-different")
        if same and ra[0] is not rb[0]:
            out.fail(f"C02:{kind}:identity", f"{model.render(a)} is not {model.render(b)} (normal form {ra[1]})")
        if not same and ra[0] is rb[0]:
            out.fail(f"C02:{kind}:distinct", f"{model.render(a)} is {model.render(b)} although normal forms differ: {ra[1]} vs {rb[1]}")
        if case.get("rel") == "rewrite" and not same:
            raise AssertionError(f"harness: rewrite changed the normal form {a} -> {b}")
    nops = model.count_ops(a)
    if ra and nops >= 3 and not ra[3]:
        out.nontrivial = f"{kind}|{ra[1]}"
        out.sample = {"a": model.render(a), "b": model.render(b), "rel": case.get("rel"), "normal_form": ra[1]}
    return out


def still_fails(case, bucket):
    return any(f.bucket == bucket for f in run_case(case).failures)
