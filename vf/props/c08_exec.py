"""Runs one C08 history in *this* (fresh) process and prints the final outcome record:

    python -m vf.props.c08_exec case.json interleaved|plain
"""
import json
import sys

from . import c08


def main(argv):
    with open(argv[1], encoding="utf-8") as fh:
        cases = json.load(fh)
    out = []
    for case in cases:
        rec, _, _ = c08._run_world(case["world"], case["steps"], case["final"], argv[2] == "interleaved", None)
        out.append(None if rec is None else [rec[0]] + [repr(x) for x in rec[1:]])
    json.dump(out, sys.stdout)


if __name__ == "__main__":
    main(sys.argv)
