"""C17 -- parsing is total.

For every text, ``Unit.parse`` and ``Quantity.parse`` either return a Unit / Quantity or raise
``measured.parsing.ParseError`` or ``KeyError``; nothing else escapes; the same text gives the
same result twice; a rejected text leaves the registries of names and symbols unchanged; an
accepted quantity has an int or float magnitude (finite or +-inf, never NaN) according to the
numeral that was written.

Inputs (DESIGN section 4, C17): (1) sentences generated from the grammar over the registered
symbol table, (2) token-level mutations of such sentences, (3) random strings over the
grammar's alphabet + registered symbols + *length-targeted numerals* (digit runs around
Python's 4300-digit int<->str limit as magnitude / caret exponent / superscript exponent,
30- and 309-digit exponents, 1e400, thousands of repeated terms, very long inputs),
(4) arbitrary Unicode: Hypothesis ``text()`` (with and without lone surrogates) and a
coverage-guided atheris campaign (``vf.props.c17_fuzz``, bytes -> str) that runs as a
subprocess, applies the *same* ``check_text`` oracle to every execution and hands its
tallies and failing cases back through a JSON file.

A case is ``{"c": <class label>, "parts": [...]}``; the text is the concatenation of the
parts, each part being a string, a code point (int; lone surrogates stay JSON-safe) or a
``[string, n]`` repetition (keeps 10 000-digit numerals small and shrinkable).

The oracle never consults the shipped parser about what was *written*: the numeral type and
the "lexes one full term" predicate come from regular expressions transcribed from
``measured.lark`` / lark's ``common.lark``.
"""
from __future__ import annotations

import atexit
import hashlib
import json
import math
import os
import re
import shutil
import subprocess
import sys
import tempfile

from hypothesis import strategies as st

from .. import core
from ..world import shared_world

ID = "C17"
RULE = (
    "Every text is given to Unit.parse and Quantity.parse, twice each. Texts: grammar-generated "
    "units/quantities over all registered unit symbols, prefix symbols and SYMBOL-shaped unit names "
    "(exponent values <= 6 digits); 1-3 token-level mutations of those; random token soups over the "
    "grammar's alphabet + look-alike characters + registered symbols; length-targeted numerals (digit "
    "runs of 4299/4300/4301/10000 and random lengths as magnitude, caret exponent, superscript exponent; "
    "30/308/309/400-digit exponents on plain, prefixed and mixed-base-prefixed symbols; 1e400; up to 3000 "
    "repeated terms; inputs up to 1e5 characters); arbitrary Unicode from Hypothesis text() with and "
    "without lone surrogates; atheris coverage-guided bytes->str executions (utf-8/surrogateescape and "
    "FuzzedDataProvider.ConsumeUnicode) seeded with the suite's strings. Non-trivial: accepted by at "
    "least one entry point, or rejected by both although it lexes at least one full term (SYMBOL after "
    "optional white space / numeral, decided by regexes independent of the parser); distinct = distinct text."
)
ASSUMPTIONS = [
    "registries of names and symbols = Unit._by_name, Unit._by_symbol, Prefix._by_name, Prefix._by_symbol, Dimension._by_name (key sets and identity of values); Unit._known / Prefix._known (anonymous interned objects) may grow",
    "'same result' = identical Unit object; for quantities identical unit object, equal magnitude (or both NaN) and same magnitude type; for rejections the same exception class; checked on an immediate second call and against the first outcome recorded for the same text earlier in the process",
    "the numeral 'written' is the longest SIGNED_FLOAT, else SIGNED_INT, match after leading white space (lark common.lark, transcribed as regexes)",
    "generated exponent values are bounded to 6 digits outside the length-targeted class; texts are bounded to 200 000 characters",
    "all shipped unit modules are imported (vf.world.shared_world) before any text is parsed",
]

MAX_TEXT = 200_000

# ------------------------------------------------------------------ lexical oracle (independent)

_WS = r"[ \t\f\r\n]*"
_FLOAT = r"[+-]?(?:[0-9]+\.[0-9]*(?:[eE][+-]?[0-9]+)?|\.[0-9]+(?:[eE][+-]?[0-9]+)?|[0-9]+[eE][+-]?[0-9]+)"
_INT = r"[+-]?[0-9]+"
_SYMBOL = "[1a-zA-ZÅₐ-ₜΑ-ω☉.°\\-()]+"
FLOAT_AT_START = re.compile(_WS + "(" + _FLOAT + ")")
INT_AT_START = re.compile(_WS + "(" + _INT + ")")
TERM_AT_START = re.compile(_WS + _SYMBOL)
SYMBOL_ONLY = re.compile(_SYMBOL + r"\Z")


def written_numeral(text):
    """('float'|'int', end offset) of the numeral at the start of the text, or (None, 0)."""
    m = FLOAT_AT_START.match(text)
    if m:
        return "float", m.end()
    m = INT_AT_START.match(text)
    if m:
        return "int", m.end()
    return None, 0


# ------------------------------------------------------------------ world, registries

W = None
M = None
PARSE_ERROR = None
REGS = []  # (label, dict object)
BASE = []  # rolling baseline: copies of the registries as they were before the current call
UNIT_SYMBOLS = []
PREFIX_SYMBOLS = []
NAME_SYMBOLS = []
TERM_SYMBOLS = []
MEMO = {}
MEMO_MAX = 60_000
_FUZZ = {"procs": [], "dir": None, "started": False}


def setup(tier):
    global W, M, PARSE_ERROR, REGS, BASE, UNIT_SYMBOLS, PREFIX_SYMBOLS, NAME_SYMBOLS, TERM_SYMBOLS
    if W is not None:
        return
    W = shared_world()
    M = W.m
    import importlib

    PARSE_ERROR = importlib.import_module("measured.parsing").ParseError
    # an application's own additional names (no symbol of their own): part of the registered
    # names the parser may meet.  This process's world only; other checks run in their own.
    for unit_name, extra in (("meter", "metre"), ("liter", "litre"), ("gram", "gramme")):
        if unit_name in M.Unit._by_name and extra not in M.Unit._by_name:
            M.Unit._by_name[unit_name].alias(name=extra)
    REGS = [
        ("Unit._by_name", M.Unit._by_name),
        ("Unit._by_symbol", M.Unit._by_symbol),
        ("Prefix._by_name", M.Prefix._by_name),
        ("Prefix._by_symbol", M.Prefix._by_symbol),
        ("Dimension._by_name", M.Dimension._by_name),
    ]
    BASE = [dict(d) for _, d in REGS]
    UNIT_SYMBOLS = sorted(s for s in M.Unit._by_symbol if SYMBOL_ONLY.match(s))
    PREFIX_SYMBOLS = sorted(s for s in M.Prefix._by_symbol if SYMBOL_ONLY.match(s))
    NAME_SYMBOLS = sorted(n for n in M.Unit._by_name if SYMBOL_ONLY.match(n) and n not in M.Unit._by_symbol)
    mixed = ["km", "KiB", "MiB", "kB", "dB", "mm", "μm", "GiB", "ms", "kg", "MHz"]
    TERM_SYMBOLS = UNIT_SYMBOLS + [s for s in mixed if s not in UNIT_SYMBOLS]


def budget(tier):
    if tier == "quick":
        return {"examples": 4000, "shards": 1}
    return {"examples": 12000, "shards": 16}


def fuzz_plan(tier):
    """(number of campaigns, executions per campaign)"""
    env = os.environ.get("VERIF_C17_FUZZ_RUNS")
    if env is not None:
        try:
            return (1, max(0, int(env)))
        except ValueError:
            pass
    if tier == "quick":
        return (1, 30_000)
    return (16, 250_000)


_MISSING = object()


def _registry_diff():
    """None when every registry equals the rolling baseline, else a list of
    (label, added, removed, rebound)."""
    changes = []
    for (label, d), base in zip(REGS, BASE):
        if len(d) == len(base):
            same = True
            for k, v in base.items():
                if d.get(k, _MISSING) is not v:
                    same = False
                    break
            if same:
                continue
        added = sorted(ascii(k) for k in d if k not in base)
        removed = sorted(ascii(k) for k in base if k not in d)
        rebound = sorted(ascii(k) for k in base if k in d and d[k] is not base[k])
        changes.append((label, added, removed, rebound))
    return changes or None


def _restore_registries():
    """after a *rejected* text changed a registry (a recorded failure): put the dicts back, in
    place, so that later cases -- and re-runs of this case by the shrinker -- start from the
    same state"""
    for (_, d), base in zip(REGS, BASE):
        d.clear()
        d.update(base)


def _accept_registry_change():
    """an *accepted* text changed a registry: not covered by the property; the new state is
    the baseline for the calls that follow"""
    global BASE
    BASE = [dict(d) for _, d in REGS]


def _same_mag(a, b):
    if type(a) is not type(b):
        return False
    if a == b:
        return True
    try:
        return a != a and b != b
    except Exception:
        return False


def _call(fn, text):
    """-> (kind, payload): ('ok', result) | ('rej', exc) | ('esc', exc)"""
    try:
        return "ok", fn(text)
    except (PARSE_ERROR, KeyError) as e:
        return "rej", e
    except (KeyboardInterrupt, SystemExit):
        raise
    except BaseException as e:  # noqa: B902 -- anything else escaping is what we look for
        return "esc", e


def _sig(kind, payload):
    if kind == "ok":
        if isinstance(payload, M.Unit):
            return ("U", id(payload))
        if isinstance(payload, M.Quantity):
            mag = payload.magnitude
            try:
                key = "nan" if mag != mag else mag
            except Exception:
                key = "?"
            return ("Q", id(payload.unit), type(mag).__name__, key)
        return ("?", type(payload).__name__)
    return (kind, type(payload).__name__)


def _short(text, n=120):
    a = ascii(text)
    if len(a) > n:
        a = a[: n // 2] + "..." + a[-n // 3 :] + f" (len {len(text)})"
    return a


def _text_key(text):
    if len(text) <= 200:
        return ascii(text)
    return "sha1:" + hashlib.sha1(text.encode("utf-8", "surrogatepass")).hexdigest() + ":" + str(len(text))


def check_text(text, out=None):
    """The whole oracle for one text; shared by run_case and the atheris target."""
    if out is None:
        out = core.Outcome()
    accepted = []
    rejected_by = []
    for entry, fn, want in (("Unit", M.Unit.parse, M.Unit), ("Quantity", M.Quantity.parse, M.Quantity)):
        kind, res = _call(fn, text)
        diff = _registry_diff()
        if kind == "esc":
            out.fail(
                f"C17:escape:{type(res).__name__}@{core.innermost_frame(res)}",
                f"{entry}.parse({_short(text)}) raised {type(res).__name__}: {_short(str(res), 160)}",
            )
            out.classes.append(f"{entry}:escape:{type(res).__name__}")
        elif kind == "rej":
            rejected_by.append(entry)
            out.classes.append(f"{entry}:rejected:" + ("KeyError" if isinstance(res, KeyError) else "ParseError"))
        else:
            accepted.append(entry)
            out.classes.append(f"{entry}:accepted")
            if not isinstance(res, want):
                out.fail(f"C17:result-type:{entry}", f"{entry}.parse({_short(text)}) returned a {type(res).__name__}")
        if diff is not None:
            if kind == "ok":
                # not demanded by the property for accepted input: counted, and taken as the new baseline
                out.classes.append(f"{entry}:accepted-but-registry-changed")
                _accept_registry_change()
            else:
                _restore_registries()
                for label, added, removed, rebound in diff:
                    what = "added" if added else ("removed" if removed else "rebound")
                    out.fail(
                        f"C17:registry:{label}:{what}",
                        f"{entry}.parse({_short(text)}) was rejected ({type(res).__name__}) but {label} changed: "
                        f"added {added[:5]} removed {removed[:5]} rebound {rebound[:5]}",
                    )

        # the magnitude of an accepted quantity
        if kind == "ok" and entry == "Quantity" and isinstance(res, M.Quantity):
            mag = res.magnitude
            written, _ = written_numeral(text)
            if written is None:
                out.fail("C17:magnitude:no-numeral-written", f"Quantity.parse({_short(text)}) accepted, magnitude {_repr(mag)}, but no numeral starts the text")
            else:
                got = type(mag)
                if got is not (int if written == "int" else float):
                    out.fail(f"C17:magnitude:type:{written}-written:{got.__name__}-returned", f"Quantity.parse({_short(text)}).magnitude is {_repr(mag)} ({got.__name__}); a {written} was written")
                elif got is float and math.isnan(mag):
                    out.fail("C17:magnitude:nan", f"Quantity.parse({_short(text)}).magnitude is NaN")
                out.classes.append(f"magnitude:{written}")
                if got is float and math.isinf(mag):
                    out.classes.append("magnitude:inf")

        # the same text again
        kind2, res2 = _call(fn, text)
        diff2 = _registry_diff()
        if diff2 is not None:
            if kind2 == "ok":
                _accept_registry_change()
            else:
                _restore_registries()
                for label, added, removed, rebound in diff2:
                    what = "added" if added else ("removed" if removed else "rebound")
                    out.fail(f"C17:registry:{label}:{what}", f"second {entry}.parse({_short(text)}) was rejected but {label} changed")
        s1, s2 = _sig(kind, res), _sig(kind2, res2)
        if s1 != s2:
            shape = f"{s1[0]}->{s2[0]}" if s1[0] != s2[0] else ("exception-class" if kind != "ok" else ("unit-identity" if s1[1] != s2[1] else "magnitude"))
            out.fail(f"C17:twice:{entry}:{shape}", f"{entry}.parse({_short(text)}) gave {_describe(kind, res)} and then {_describe(kind2, res2)}{' (another unit object)' if shape == 'unit-identity' else ''}")
        elif kind == "ok" and entry == "Quantity" and isinstance(res, M.Quantity) and isinstance(res2, M.Quantity):
            if not _same_mag(res.magnitude, res2.magnitude):
                out.fail(f"C17:twice:{entry}:magnitude", f"{entry}.parse({_short(text)}) gave magnitudes {_repr(res.magnitude)} and {_repr(res2.magnitude)}")
        # ... and against the first time this text was seen in this process
        if len(text) <= 64:
            mk = (entry, text)
            first = MEMO.get(mk)
            if first is None:
                if len(MEMO) < MEMO_MAX:
                    MEMO[mk] = (s1, res if kind == "ok" else None)  # keeps the object alive so ids stay unique
            elif first[0] != s1:
                out.fail(f"C17:twice:{entry}:later-call", f"{entry}.parse({_short(text)}) gave {_describe_sig(first[0])} earlier in this process and {_describe(kind, res)}{' (another object)' if first[0][0] == s1[0] == 'U' else ''} now")
        del res, res2

    if accepted:
        out.nontrivial = _text_key(text)
        out.classes.append("nontrivial:accepted")
    else:
        _, end = written_numeral(text)
        if TERM_AT_START.match(text) or (end and TERM_AT_START.match(text, end)):
            out.nontrivial = _text_key(text)
            out.classes.append("nontrivial:rejected-after-a-term")
    if out.nontrivial is not None:
        out.sample = {"text": _short(text, 80), "accepted_by": accepted, "rejected_by": rejected_by}
    return out


def _repr(x, n=60):
    try:
        return _short(repr(x), n)
    except Exception as e:  # e.g. an int too long to print
        return f"<{type(x).__name__}: repr failed with {type(e).__name__}>"


def _describe(kind, res):
    # no object addresses in here: details end up in replay files and should not vary from run to run
    if kind == "ok":
        if isinstance(res, M.Quantity):
            return f"a Quantity (magnitude {_repr(res.magnitude, 40)} of type {type(res.magnitude).__name__})"
        return f"a {type(res).__name__}"
    return f"{type(res).__name__}"


def _describe_sig(sig):
    if sig[0] in ("rej", "esc"):
        return sig[1]
    return {"U": "a Unit", "Q": "a Quantity"}.get(sig[0], "an object") + (f" (magnitude {_repr(sig[3], 40)} of type {sig[2]})" if sig[0] == "Q" else "")


# ------------------------------------------------------------------ cases


def expand(parts):
    """text of a case; raises ValueError/TypeError on malformed specs"""
    if not isinstance(parts, list):
        raise TypeError("parts")
    out = []
    total = 0
    for p in parts:
        if isinstance(p, bool):
            raise TypeError("bool part")
        if isinstance(p, str):
            s = p
        elif isinstance(p, int):
            if not 0 <= p <= 0x10FFFF:
                raise ValueError("code point")
            s = chr(p)
        elif isinstance(p, list) and len(p) == 2 and isinstance(p[0], str) and isinstance(p[1], int) and not isinstance(p[1], bool):
            if p[1] < 0 or len(p[0]) * p[1] > MAX_TEXT:
                raise ValueError("repetition")
            s = p[0] * p[1]
        else:
            raise TypeError("part")
        total += len(s)
        if total > MAX_TEXT:
            raise ValueError("too long")
        out.append(s)
    return "".join(out)


def run_case(case) -> core.Outcome:
    out = core.Outcome()
    try:
        label = case["c"]
        if not isinstance(label, str):
            raise TypeError("label")
        text = expand(case["parts"])
    except (KeyError, TypeError, ValueError, IndexError, AttributeError):
        out.invalid = True
        return out
    out.classes.append("class:" + label)
    return check_text(text, out)


def still_fails(case, bucket):
    return any(f.bucket == bucket for f in run_case(case).failures)


# ------------------------------------------------------------------ strategies

SUP = "⁰¹²³⁴⁵⁶⁷⁸⁹"
SUP_MINUS = "⁻"
DOT = "⋅"

ALPHABET = list(
    "0123456789+-.eE^*/ \t\n\r\f" + DOT + SUP + SUP_MINUS + "1abcdeghkmnsuxzABCEGKMNPTVWÅₐₙₜΑΩμω☉.°-()"
    # look-alikes and near misses that are *not* in the grammar
    + "µÅΩ·×−–⁄∕  ​⁺⁼₀₁½٣５①,_%'\"[]{}:;=<>|\\~`!?@#$&\x00\x1b\x7f﻿"
)
OPERATORS = ["/", "*", DOT, " ", "  ", "\t", "\n", " / ", " * ", "//", "**", "^", "^-", "^+", SUP_MINUS]
EXPONENT_BITS = ["^2", "^-1", "^+3", "^0", "^-0", "^00", "^ 2", "^1", "²", "³", SUP_MINUS + "¹", "⁰", "²²²", SUP_MINUS, SUP_MINUS + SUP_MINUS + "¹", "^2^3", "^2³", "^1.5", "^1e3", "^(2)", "⁺²"]
NUMERALS = [
    "5", "-5", "+5", "0", "-0", "007", "5.", ".5", "-.5", "+.5", "5.2", "-5.2", "1e3", "1E3", "1e+3", "1e-3", "5.2e10", ".5e1", "5.e1",
    "1e400", "-1e400", "1e-400", "1.7976931348623157e308", "1.7976931348623159e308", "4.9e-324", "2e-324", "9007199254740993", "9007199254740993.0",
    "12345678901234567890123", "1e", "1e+", "5e", "--5", "+-5", "5..", "5.2.3", "0x10", "1_000", "1,000", "inf", "nan", "-inf", "NaN", "Infinity", "1e400e1", "1 e3", "5 .2", "٥", "５", "½", "−" + "5",
]


# Strategies are built once (strategy() is called once per process) from tuples / lists / maps
# of a few primitive draws: composites that create strategies per draw cost ~6 ms per
# example, this costs ~1 ms.  Every choice is a Hypothesis draw; the `r` integers below are
# drawn bit pools from which purely positional decisions (which separator at place i, which
# token to delete) are decoded.

TARGET_LENGTHS = [4299, 4300, 4301, 10000]
EXP_LENGTHS = [7, 18, 30, 30, 308, 309, 310, 400]
_BITS = st.integers(0, 2**40 - 1)


def _sup(n):
    s = str(abs(n))
    return (SUP_MINUS if n < 0 else "") + "".join(SUP[int(c)] for c in s)


def _exponent_text(t):
    # exponent values are kept to <= 6 digits here; longer ones live in the length-targeted class
    form, n, z = t
    if form <= 1:
        return _sup(n)
    if form == 2:
        return "^" + str(n)
    if form == 3:
        return "^" + ("+" if n >= 0 else "") + str(n)
    if form == 4:
        return "^" + ("-" if n < 0 else "") + "0" * (1 + z) + str(abs(n))
    return (SUP_MINUS if n < 0 else "") + SUP[0] * z + _sup(abs(n))


def _sequence_parts(t, max_terms=5):
    style, terms, r = t
    parts = []
    for i, (sym, exp) in enumerate(terms[:max_terms]):
        if i:
            k = (r >> (3 * i)) & 7
            if style == 0:
                parts.append(" ")
            elif style == 1:
                parts.append(("*", DOT)[k & 1])
            elif style == 2:
                parts.append(("*", DOT, " * ", " " + DOT + " ", "\t*\n", "* ", " " + DOT, "*")[k])
            elif not (parts[-1][:1] == "^" or parts[-1][-1:] in SUP):
                parts.append(" ")  # juxtaposition: two bare symbols side by side would lex as one SYMBOL
        parts.append(sym)
        if exp is not None:
            if (r >> 30) % 11 == i:
                parts.append(" ")
            parts.append(exp)
    return parts


def _unit_parts(t):
    num, den = t
    parts = _sequence_parts(num)
    if den is not None:
        parts.append(den[0])
        parts.extend(_sequence_parts(den[1], 3))
    return parts


def _quantity_parts(t):
    mag, sep, unit, pad = t
    parts = [mag, sep] + _unit_parts(unit)
    if pad % 10 == 0:
        parts.insert(0, (" ", "\n", "\t ")[pad % 3])
    if pad % 7 == 0:
        parts.append((" ", "\n", "\t ")[pad % 3])
    return parts


def _mutate(t):
    parts, muts = t
    parts = list(parts)
    for op, r, tok, c in muts:
        n = len(parts)
        if op == 0 and n:
            del parts[r % n]
        elif op == 1 and n:
            i = r % n
            parts.insert(i, parts[i])
        elif op == 2 and n > 1:
            i, j = r % n, (r >> 16) % n
            parts[i], parts[j] = parts[j], parts[i]
        elif op == 3:
            parts.insert(r % (n + 1), tok)
        elif op == 4 and n:
            parts[r % n] = tok
        elif op == 5 and n:
            # character-level damage inside one token
            i = r % n
            s = parts[i]
            if s:
                j = (r >> 16) % len(s)
                how = (r >> 32) % 3
                parts[i] = s[:j] + (c + s[j:] if how == 0 else (c + s[j + 1 :] if how == 1 else s[j + 1 :]))
        elif n > 1:
            del parts[1 + r % (n - 1) :]  # truncate
    return parts


def _soup_parts(t):
    sep, toks = t
    parts = []
    for i, tok in enumerate(toks):
        if i and sep:
            parts.append(sep)
        parts.append(tok)
    return parts


def _length_parts(t):
    k, digit, n, sign, sym, e, a, b, r = t
    sdig = SUP[int(digit)]
    ssign = SUP_MINUS if sign == "-" else ""
    if k == 0:
        return [sign, [digit, n], " ", sym]
    if k == 1:
        form = r % 5
        if form == 0:
            return [sign, [digit, n], ".5 ", sym]
        if form == 1:
            return [sign, "1e", [digit, n], " ", sym]
        if form == 2:
            return [sign, "1.", [digit, n], " ", sym]
        if form == 3:
            return [sign, "1e-", [digit, n], " ", sym]
        return [sign, ".", [digit, n], "e", [digit, 1 + (r >> 8) % 400], " ", sym]
    if k == 2:
        return [sym, "^", sign, [digit, n]]
    if k == 3:
        return [sym, ssign, [sdig, n]]
    if k == 4:
        return ["1 ", sym, "^", sign, [digit, n], "/s"]
    if k == 5:
        return ["1.5 ", sym, ssign, [sdig, n]]
    if k in (6, 7, 8):
        # long but convertible exponents, on plain / prefixed / mixed-base-prefixed terms
        sep = (" ", "/", "*")[r % 3]
        if (r >> 5) & 1:
            # 5000...0: the int still converts to float but float prefix arithmetic leaves its range
            lead = "123456789"[(r >> 6) % 9]
            exp1 = ["^", sign, lead, ["0", e - 1]] if (r >> 4) & 1 else [ssign, SUP[int(lead)], [SUP[0], e - 1]]
        else:
            exp1 = ["^", sign, [digit, e]] if (r >> 4) & 1 else [ssign, [sdig, e]]
        if k == 6:
            return [a] + exp1
        if k == 7:
            return [a] + exp1 + [sep, b]
        return ["2 ", b, sep, a] + exp1
    if k == 9:
        s = ("1e400", "-1e400", "1e-400", "1e308", "1e309", "-1.8e308", "1e" + "0" * 50 + "1")[r % 7]
        return [s, (" ", "")[(r >> 4) & 1], sym]
    if k == 10:
        # many repeated terms (every partial product is interned, so this stays <= 1000 terms here; 3000 in the fixed list)
        rep = ("m ", "m*", "m s ", "m^2 s^-1 ", "km" + DOT, "m²", "KiB km ")[r % 7]
        cnt = (10, 100, 500, 1000)[(r >> 4) % 4]
        return [("", "5 ", "5.5 ")[(r >> 8) % 3], [rep, cnt], ("m", "m", "", "/s")[(r >> 12) % 4]]
    if k == 11:
        unit = ("(", "m", " ", "m/", "^", "-", ".", "1", "5", "²", "⁻", "/", "*", "é", "\U0001f600", "5 m ")[r % 16]
        cnt = (100, 1000, 5000, 20000)[(r >> 4) % 4]
        return [("", "5 ", "m")[(r >> 8) % 3], [unit, cnt], ("", "m", " m")[(r >> 12) % 3]]
    if k == 12:
        # leading zeros count towards the digit limit
        return [sign, ["0", n], ("", "1", ".0", "e0")[r % 4], " ", sym]
    return [sym, "^", sign, ["0", n], ("", "2")[r % 2]]


def _codepoints(s):
    return [ord(c) for c in s]


def strategy(tier):
    # weights by repetition: bare registered symbols, prefix+symbol, SYMBOL-shaped names, a few mixed-base favourites
    prefixed = [p + u for p in PREFIX_SYMBOLS for u in UNIT_SYMBOLS]
    symbol = st.one_of(
        st.sampled_from(UNIT_SYMBOLS),
        st.sampled_from(UNIT_SYMBOLS),
        st.sampled_from(prefixed),
        st.sampled_from(TERM_SYMBOLS + NAME_SYMBOLS),
    )
    exp_value = st.one_of(st.integers(-9, 9), st.integers(-9, 9), st.integers(-999, 999), st.integers(-999_999, 999_999))
    exponent = st.tuples(st.integers(0, 5), exp_value, st.integers(0, 2)).map(_exponent_text)
    term = st.tuples(symbol, st.one_of(st.none(), exponent, exponent))
    sequence = st.tuples(st.integers(0, 3), st.lists(term, min_size=1, max_size=5), _BITS)
    unit = st.tuples(sequence, st.one_of(st.none(), st.none(), st.tuples(st.sampled_from(["/", " / ", "/ ", " /"]), sequence)))
    sign = st.sampled_from(["", "", "-", "+"])
    magnitude = st.one_of(
        st.tuples(sign, st.integers(0, 10**6)).map(lambda t: t[0] + str(t[1])),
        st.tuples(sign, st.integers(0, 10**25)).map(lambda t: t[0] + str(t[1])),
        st.floats(allow_nan=False, allow_infinity=False).map(repr),
        st.floats(min_value=-1e6, max_value=1e6, allow_nan=False).map(repr),
        st.tuples(sign, st.integers(0, 999), st.sampled_from(["", "0", "5", "25", "000", "123456789012345678901234567890"])).map(lambda t: f"{t[0]}{t[1]}.{t[2]}"),
        st.tuples(sign, st.sampled_from(["1", "9.99", ".5", "5.", "123"]), st.sampled_from(["e", "E", "e-", "e+", "E-"]), st.integers(0, 450)).map(lambda t: f"{t[0]}{t[1]}{t[2]}{t[3]}"),
        st.sampled_from(NUMERALS[:28]),
    )
    quantity = st.tuples(magnitude, st.sampled_from([" ", " ", " ", "", "  ", "\t", "\n"]), unit, st.integers(0, 209))
    valid = st.one_of(unit.map(_unit_parts), quantity.map(_quantity_parts))

    any_token = st.one_of(
        st.sampled_from(OPERATORS),
        st.sampled_from(EXPONENT_BITS),
        st.sampled_from(NUMERALS),
        st.sampled_from(ALPHABET),
        symbol,
        st.sampled_from(PREFIX_SYMBOLS),
        exponent,
    )
    mutation = st.tuples(st.integers(0, 6), _BITS, any_token, st.sampled_from(ALPHABET))
    mutated = st.tuples(valid, st.lists(mutation, min_size=1, max_size=3)).map(_mutate)
    soup = st.tuples(st.sampled_from(["", "", " "]), st.lists(any_token, max_size=10)).map(_soup_parts)

    length_targeted = st.tuples(
        st.integers(0, 13),
        st.sampled_from(["9", "9", "1", "7", "0"]),
        st.one_of(st.sampled_from(TARGET_LENGTHS), st.sampled_from(TARGET_LENGTHS), st.integers(4290, 4310), st.integers(1, 12000)),
        sign,
        st.sampled_from(["m", "m", "s", "km", "KiB", "N", "Hz", "dB", "°C", "1", "kB", "zzz"]),
        st.sampled_from(EXP_LENGTHS),
        st.sampled_from(["m", "km", "KiB", "dB", "kB", "N", "μs", "GiB"]),
        st.sampled_from(["m", "km", "KiB", "s", "MiB", "kg"]),
        _BITS,
    ).map(_length_parts)

    every = st.characters(min_codepoint=0, max_codepoint=0x10FFFF, exclude_categories=())
    unicode_cases = st.one_of(
        st.text(max_size=40).map(_codepoints),
        st.text(every, max_size=40).map(_codepoints),
        st.lists(st.one_of(st.integers(0, 0x10FFFF), st.integers(0xD800, 0xDFFF), st.integers(0, 0x2FF), st.integers(0x2000, 0x20FF)), max_size=30),
        # arbitrary text around a valid core
        st.tuples(st.text(every, max_size=4), st.sampled_from(["m", "5 m", "5.1 km^2/s", "m²"]), st.text(every, max_size=4)).map(
            lambda t: _codepoints(t[0]) + [t[1]] + _codepoints(t[2])
        ),
    )

    def mk(label, s):
        return s.map(lambda parts: {"c": label, "parts": parts})

    g, m, a, l, u = mk("grammar", valid), mk("mutation", mutated), mk("alphabet", soup), mk("length-targeted", length_targeted), mk("unicode", unicode_cases)
    return st.one_of(g, g, g, m, m, m, a, a, l, u, u)


# ------------------------------------------------------------------ fixed cases (enumerated)

SUITE_STRINGS = [
    "fleebles", "queeble²", ",,,", "", " ", "m", "5 zeebles", "meter", "Hz", "hertz", "Ω", "ohm", "m²", "meter²", "m²²²",
    "m⁻¹", "m^2", "m^222", "m^-1", "m²A³", "m²⋅A³", "m²*A³", "m²A³s⁻³", "m²⋅A³⋅s^-3",
    "m²*A³*s^-3", "m/s", "m²A³/s^3", "m²⋅A³/s^3", "5m", "5 m", "5.1 m", "5 Hz", "5.1 Hz", "5 Ω", "5 m²", "5 m²²²",
    "5 m⁻¹", "5 m^2", "5.1 m^2", "5 m^-1", "5 m²A³/s^3", "5 km", "5 KiB", "5 μm", "3 km²", "km²", "5200 m", "5.2e2 m/s", "2 A³/m²",
    "2 m^2/s", "2 m²⋅s⁻¹", "1 1", "5 1", "1", "1e400 m", "-1e400 m", "1e-400 m", "5. m", ".5 m", "5e3m", "5e m", "m^0", "m⁰", "m ² ",
    "⁻", "m⁻", "m^", "m^-", "m^2^3", "5 m", "5 µm", "nan m", "inf m", "NaN", "-inf m", "1_000 m", "0x10 m", "5 m/", "/s", "5 /s", "m//s", "m/s/s", "m**2", "5 m s",
]


def _fixed_cases(tier):
    cases = [{"c": "suite", "parts": [s]} for s in SUITE_STRINGS]
    L = "length-targeted"
    for n in TARGET_LENGTHS:
        for digit in ("9", "1"):
            sd = SUP[int(digit)]
            cases += [
                {"c": L, "parts": [[digit, n], " m"]},
                {"c": L, "parts": ["-", [digit, n], " m"]},
                {"c": L, "parts": [[digit, n], ".5 m"]},
                {"c": L, "parts": ["1e", [digit, n], " m"]},
                {"c": L, "parts": ["1.", [digit, n], " m"]},
                {"c": L, "parts": ["m^", [digit, n]]},
                {"c": L, "parts": ["m^-", [digit, n]]},
                {"c": L, "parts": ["m", [sd, n]]},
                {"c": L, "parts": ["m", SUP_MINUS, [sd, n]]},
                {"c": L, "parts": ["1 m^", [digit, n]]},
                {"c": L, "parts": ["1.5 m", [sd, n]]},
                {"c": L, "parts": ["1 m^", [digit, n], "/s", [sd, n]]},
            ]
        cases += [{"c": L, "parts": [["0", n], " m"]}, {"c": L, "parts": ["m^", ["0", n], "2"]}]
    # exponent numerals around the interpreter's int-to-str digit limit (4300): int() accepts
    # them, rendering them (in an error message, say) does not
    for e in (4299, 4300, 4301):
        for sym in ("m", "km", "KiB", "kB"):
            cases += [
                {"c": L, "parts": [sym, "^", ["9", e]]},
                {"c": L, "parts": ["KiB ", sym, "^", ["9", e]]},
                {"c": L, "parts": ["5 ", sym, "^-", ["9", e], "*KiB"]},
                {"c": L, "parts": [sym, "^", ["9", e], "/km"]},
                {"c": L, "parts": [sym, ["⁹", e], " kB"]},
            ]
    for e in (30, 308, 309, 400):
        for sym in ("m", "km", "KiB", "dB", "kB", "MB"):
            # huge powers that cancel within one text (inf - inf in prefix arithmetic)
            cases += [
                {"c": L, "parts": [sym, "^", ["9", e], "/", sym, "^", ["9", e]]},
                {"c": L, "parts": [sym, "^", ["9", e], "*", sym, "^-", ["9", e]]},
                {"c": L, "parts": ["5 m*", sym, "^-", ["9", e], "/s*GB^-", ["9", e]]},
                {"c": L, "parts": [sym, ["⁹", e], "/KiB", ["⁹", e]]},
            ]
            cases += [
                {"c": L, "parts": [sym, "^", ["9", e]]},
                {"c": L, "parts": [sym, "^-", ["9", e]]},
                {"c": L, "parts": [sym, ["⁹", e]]},
                {"c": L, "parts": ["km ", sym, "^", ["9", e]]},
                {"c": L, "parts": [sym, "^", ["9", e], " KiB"]},
                {"c": L, "parts": [sym, "^", ["9", e], "/KiB"]},
                {"c": L, "parts": ["1.5 ", sym, "^", ["9", e], "/km"]},
            ]
    # numerals written with digit separators or other decorations of numeric literals that some
    # languages accept (Python's 1_000, 1__0.5 is not even that): a numeral the number type
    # refuses must come out as ParseError
    for sep in ("_", "__", ",", "'", "\u2009", "\u00a0"):
        for num in ("1{s}000", "1{s}0.5", "1{s}.5", "2.5{s}", "1e1{s}", "1{s}0e5", "{s}5", "-1{s}0.25", "5{s}"):
            for tail in (" m", "m", " kg/s", ""):
                cases.append({"c": "decorated-numeral", "parts": [num.format(s=sep) + tail]})
    # spelled-out prefixed units: a prefix *name* glued to a unit name (shipped, or an additional
    # name without a symbol of its own)
    for pn in ("kilo", "milli", "centi", "mega", "kibi", "deca"):
        for un in ("metre", "litre", "gramme", "meter", "second", "byte", "sievert"):
            cases += [{"c": "spelled-out", "parts": [pn + un]}, {"c": "spelled-out", "parts": ["5 " + pn + un + "/s"]}, {"c": "spelled-out", "parts": [pn + " " + un]}]
    for s in ("1e400", "-1e400", "1e-400", "1e309", "1.7976931348623159e308"):
        cases += [{"c": L, "parts": [s, " m"]}, {"c": L, "parts": [s, "m"]}, {"c": L, "parts": [s]}]
    cases += [
        {"c": L, "parts": [["m ", 3000]]},
        {"c": L, "parts": [["m*", 2999], "m"]},
        {"c": L, "parts": [["m s ", 1500]]},
        {"c": L, "parts": ["5 ", ["m^2 s^-1 ", 1500]]},
        {"c": L, "parts": ["5 ", ["m⋅", 2999], "m/", ["s ", 3000]]},
        {"c": L, "parts": [["m/", 3000], "m"]},
        {"c": L, "parts": [["m", 10000]]},
        {"c": L, "parts": ["5 ", ["m", 10000]]},
        {"c": L, "parts": [["(", 10000]]},
        {"c": L, "parts": [["5", 3000]]},
        {"c": L, "parts": [[" ", 100000], "m"]},
        {"c": L, "parts": ["5", [" ", 100000], "m"]},
        {"c": L, "parts": ["m", [" ", 50000], "²"]},
        {"c": L, "parts": [["\n", 20000], "5 m", ["\n", 20000]]},
        {"c": L, "parts": ["m", ["²", 4300]]},
        {"c": L, "parts": [["5 m ", 2000]]},
        {"c": L, "parts": [["\U0001f600", 20000]]},
        {"c": L, "parts": ["5 m", ["^2", 5000]]},
    ]
    return cases


def enumerate_cases(tier):
    # the fuzz campaign(s) run in the background while the Hypothesis part is busy
    start_fuzz(tier, core.seed_value())
    return _fixed_cases(tier)


# ------------------------------------------------------------------ atheris campaigns


def fuzz_seed_inputs():
    """byte strings for the initial corpus: mode byte + utf-8 text"""
    seeds = []
    for s in SUITE_STRINGS:
        seeds.append(b"\x00" + s.encode("utf-8"))
    for s in ("5 km^2/s", "m^99999", "km KiB^3", "1e400 m", "12345678901234567890 m", "5 m²⋅A³⋅s^-3", "5.1e-3 μm/ms²", "9" * 60 + " m", "m^" + "9" * 60, "m" + "⁹" * 40):
        seeds.append(b"\x00" + s.encode("utf-8"))
        seeds.append(b"\x01\x01" + s.encode("utf-16-le"))  # roughly what ConsumeUnicode reads in its 16-bit mode
    return seeds


def fuzz_dictionary():
    toks = [DOT, SUP_MINUS, "^-", "^", "/", "*", "e", "E", ".", "+", "-", "1e400", "Ki", "μ", "Ω", "°C", "Å", "☉", "ft.", "hp(E)", "tₜₙₜ"] + list(SUP)
    toks += ["9" * 20, "⁹" * 10, "0" * 20]
    lines = []
    for t in toks:
        lines.append('"' + "".join("\\x%02x" % b for b in t.encode("utf-8")) + '"')
    return "\n".join(lines) + "\n"


def start_fuzz(tier, seed):
    if _FUZZ["started"]:
        return
    _FUZZ["started"] = True
    campaigns, runs = fuzz_plan(tier)
    _FUZZ["runs"] = runs
    if runs <= 0:
        return
    d = tempfile.mkdtemp(prefix="vf-c17-fuzz-")
    _FUZZ["dir"] = d
    atexit.register(_cleanup)  # also when the Hypothesis part dies before post() runs
    with open(os.path.join(d, "dict.txt"), "w", encoding="ascii") as fh:
        fh.write(fuzz_dictionary())
    env = dict(os.environ)
    env["PYTHONHASHSEED"] = env.get("PYTHONHASHSEED", "0")
    root = core.ROOT
    deps = os.path.join(root, ".deps")
    pp = [p for p in env.get("PYTHONPATH", "").split(os.pathsep) if p]
    for p in (deps, root):
        if p not in pp:
            pp.append(p)
    env["PYTHONPATH"] = os.pathsep.join(pp)
    # libFuzzer is reproducible for a fixed -seed/-runs/-reload=0 only if object addresses are too
    # (something downstream orders by id/hash); so address randomisation is switched off when
    # the platform lets us, and all paths are relative so that argv is the same in every run
    prefix = []
    setarch = shutil.which("setarch")
    if setarch:
        try:
            if subprocess.run([setarch, os.uname().machine, "-R", "true"], capture_output=True, timeout=20).returncode == 0:
                prefix = [setarch, os.uname().machine, "-R"]
        except (OSError, subprocess.SubprocessError):
            prefix = []
    _FUZZ["aslr_off"] = bool(prefix)
    for i in range(campaigns):
        corpus = os.path.join(d, f"corpus{i}")
        os.makedirs(corpus)
        for j, b in enumerate(fuzz_seed_inputs()):
            with open(os.path.join(corpus, f"seed{j:03d}"), "wb") as fh:
                fh.write(b)
        res = os.path.join(d, f"result{i}.json")
        log = open(os.path.join(d, f"log{i}.txt"), "wb")
        cmd = prefix + [
            sys.executable, "-m", "vf.props.c17_fuzz",
            "--out", f"result{i}.json", "--runs", str(runs * 3 // 5 if i % 2 else runs), "--fuzz-seed", str((seed * 1000003 + i * 7919 + 5) % (2**31 - 1) or 1),
            "--corpus", f"corpus{i}", "--dict", "dict.txt",
            # every other campaign of the thorough tier may grow its inputs past the 309-digit exponents
            "--max-len", "640" if i % 2 else "96",
        ]
        p = subprocess.Popen(cmd, cwd=d, env=env, stdout=log, stderr=subprocess.STDOUT)
        _FUZZ["procs"].append((p, res, log))


def _cleanup():
    for p, _, log in _FUZZ["procs"]:
        if p.poll() is None:
            p.kill()
        try:
            log.close()
        except Exception:
            pass
    if _FUZZ["dir"] and not os.environ.get("VERIF_C17_KEEP"):
        shutil.rmtree(_FUZZ["dir"], ignore_errors=True)


def post(tier, col):
    """wait for the fuzz campaigns and merge what they saw into the collector"""
    if not _FUZZ["started"]:
        start_fuzz(tier, core.seed_value())
    execs = 0
    fuzz_nontrivial = 0
    try:
        for p, res, log in _FUZZ["procs"]:
            try:
                rc = p.wait(timeout=3600)
            finally:
                log.close()
            if not os.path.exists(res):
                with open(log.name, "rb") as fh:
                    tail = fh.read()[-1500:].decode("utf-8", "replace")
                raise RuntimeError(f"atheris campaign produced no result file (exit {rc}); log tail:\n{tail}")
            with open(res, encoding="utf-8") as fh:
                data = json.load(fh)
            if rc != 0 or not data.get("complete"):
                with open(log.name, "rb") as fh:
                    tail = fh.read()[-1500:].decode("utf-8", "replace")
                raise RuntimeError(f"atheris campaign ended early (exit {rc}, {data.get('executions')} executions); log tail:\n{tail}")
            execs += data["executions"]
            col.evaluations += data["executions"]
            for k, v in data["classes"].items():
                col.classes[k] += v
            for key in data["nontrivial_keys"]:
                col.nontrivial.add(key)
            fuzz_nontrivial += data["nontrivial"]
            for s in data["samples"]:
                if len(col.samples) < col.max_samples + 4:
                    col.samples.append(s)
            for rec in data["failures"]:
                # re-run in this process so that the detail and bucket are those of this tree/run
                out = run_case(rec["case"])
                if any(f.bucket == rec["bucket"] for f in out.failures):
                    col.add(rec["case"], core.Outcome(failures=[f for f in out.failures if f.bucket == rec["bucket"]]))
                else:
                    col.add(rec["case"], core.Outcome(failures=[core.Failure(rec["bucket"], rec["detail"] + " [seen by the fuzzer only]")]))
                col.evaluations -= 1
            for b, n in data["bucket_counts"].items():
                col.bucket_counts[b] += max(0, n - sum(1 for r in data["failures"] if r["bucket"] == b))
    finally:
        _cleanup()
    col.max_samples += 4
    col.extra["fuzz_executions"] = execs
    col.extra["fuzz_campaigns"] = len(_FUZZ["procs"])
    col.extra["fuzz_address_randomisation_off"] = bool(_FUZZ.get("aslr_off"))
    col.extra["fuzz_distinct_nontrivial_lower_bound"] = fuzz_nontrivial
    col.extra["registered"] = {label: len(d) for label, d in REGS}


def vacuity(col):
    need = [
        "class:grammar", "class:mutation", "class:alphabet", "class:length-targeted", "class:unicode", "class:fuzz",
        "Unit:accepted", "Quantity:accepted", "Unit:rejected:ParseError", "Unit:rejected:KeyError",
        "Quantity:rejected:ParseError", "Quantity:rejected:KeyError", "magnitude:int", "magnitude:float", "magnitude:inf",
        "nontrivial:accepted", "nontrivial:rejected-after-a-term",
    ]
    missing = [c for c in need if not col.classes.get(c)]
    if not col.extra.get("fuzz_executions"):
        missing.append("atheris executions")
    return missing
