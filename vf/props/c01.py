"""C01 -- a unit's dimension always equals the product of its factors' dimensions, for all
histories of public operations.

Model-based stateful generation: a history is a list of operations over a growing pool of
units, run in a fresh world (fresh import of the library).  After every step
  (a) every unit interned in Unit._known that appeared during the step is checked against
      the product of its base-unit factors' dimensions *as recorded when those base units
      were defined*, and every k steps the whole registry is re-checked;
  (b) every pool entry carries a free-abelian-group model computed from the way it was
      built (never from history); the dimension it reports must be the model's.
"""
from __future__ import annotations

import contextlib
import copy
import io
import json
import pickle
import sys

from hypothesis import strategies as st

from .. import core, model
from ..world import World

ID = "C01"
RULE = (
    "Hypothesis histories of 5-30 public operations in a fresh world (si, us, energy, astronomical, metric, "
    "iec loaded): * / **n root(n) as_ratio() str repr format(u,'/') IPython-pretty _repr_html_ Unit.parse(str) "
    "Quantity in_unit / == / < / + , pickle-copy-JSON round trips, cli.print_quantity, definition of new base "
    "units of derived dimensions, and re-building the numerator/denominator sub-products of an earlier value "
    "(parts after wholes). Operands are earlier results. Non-trivial: a render / ratio-split / root / conversion "
    "of a compound unit having a base-unit factor whose own dimension is mixed-sign or a power, followed by an "
    "operation that constructs one of its sub-products; distinct = (operation kind, shape class) pairs seen."
)
ASSUMPTIONS = [
    "base-unit dimensions are recorded when the world is created / when the history defines a new base unit",
    "exceptions raised by an operation are swallowed and counted: C01 is about what the operation leaves behind",
    "Unit.__init__ is wrapped from outside (no source change) only to learn which library function created a unit, which names the bucket",
]

MODS = ["si", "us", "energy", "astronomical", "metric", "iec"]
OPS = ["mul", "div", "pow", "root", "ratio", "str", "fmt", "repr", "pretty", "html", "parse", "conv", "cmp", "add",
       "pickle", "json", "cli", "define", "numer", "denom", "prefix", "qpretty", "unprefixed", "convswap", "powconv", "powprodconv", "helper"]
# shipped helper modules an application may import at any time (strategies for hypothesis, the
# pytest plugin, further unit modules): importing them builds units too
HELPERS = ["hypothesis", "pytest", "systems", "geometry", "physics", "computing", "acoustics", "electronics", "music", "natural", "fff", "apocrypha", "eu", "iso", "troy", "avoirdupois"]


def setup(tier):
    pass


def budget(tier):
    return {"examples": 400, "shards": 1} if tier == "quick" else {"examples": 1500, "shards": 16}


def strategy(tier):
    OP = st.sampled_from(OPS + ["mul", "div", "div", "div", "fmt", "fmt", "ratio", "ratio", "root", "root", "conv", "conv", "numer", "numer", "denom", "pretty", "cli", "pow", "convswap", "convswap", "powconv", "powconv", "powprodconv", "powprodconv"])
    IDX = st.integers(0, 10**6)
    N = st.sampled_from([-3, -2, -1, 2, 3, 4, -4])
    step = st.tuples(OP, IDX, IDX, N).map(list)
    return st.builds(lambda init, ops: {"init": init, "ops": ops}, st.lists(IDX, min_size=3, max_size=6), st.lists(step, min_size=8, max_size=30))


def enumerate_cases(tier):
    """every shipped helper module imported as the first thing a history does (an import builds
    units too, and may be the first creator of some), followed by a few ordinary operations"""
    out = []
    for i in range(len(HELPERS)):
        out.append({"init": [3, 17, 41, 5], "ops": [["helper", i, 0, 2], ["pow", 0, 1, -1], ["pow", 1, 2, -1], ["div", 2, 3, 2], ["str", 0, 0, 2], ["pow", 3, 0, -2]]})
        out.append({"init": [7, 29, 11], "ops": [["pow", 0, 1, -1], ["helper", i, 0, 2], ["pow", 1, 2, -1], ["mul", 0, 2, 2], ["ratio", 1, 0, 2]]})
    return out


def _dimkind(exps):
    from ..domain import dimkind

    return dimkind(exps)


def _s(u):
    """str(u) for messages; rendering itself may be what is broken"""
    try:
        return str(u)
    except Exception as e:  # noqa
        return f"<unit whose str() raises {type(e).__name__}: factors {dict((getattr(f, 'name', None) or '?', x) for f, x in u.factors.items())}>"


class Run:
    def __init__(self):
        self.w = World(MODS)
        m = self.w.m
        self.m = m
        self.snap = model.Snapshot(self.w)
        self.creator = {}
        orig_init = m.Unit.__init__
        run = self

        def init(self_, *a, **k):
            fresh = not getattr(self_, "_initialized", True)
            orig_init(self_, *a, **k)
            if fresh:
                f = sys._getframe(1)
                run.creator[id(self_)] = getattr(f.f_code, "co_qualname", f.f_code.co_name)

        m.Unit.__init__ = init
        self.base_dims = {id(u): tuple(u.dimension.exponents) for u in m.Unit._base}
        self.known_ids = {id(u) for u in m.Unit._known.values()}
        self.keep = []  # keep every unit alive so that ids stay unique
        self.names = sorted(self.snap.units)
        self.pfx = sorted(n for n in self.snap.prefixes if n)
        self.bydim = {}
        for n_ in self.names:
            u_ = self.snap.units[n_]
            if len(u_.factors) == 1 and next(iter(u_.factors)) is u_:
                self.bydim.setdefault(tuple(u_.dimension.exponents), []).append(u_)
        self.pool = []  # (unit, model or None)
        self.ndefined = 0

    def expected_dim(self, u):
        v = [0] * len(self.m.Number.exponents)
        for f, e in u.factors.items():
            if f is self.m.One:
                continue
            d = self.base_dims.get(id(f))
            if d is None:
                # a factor that is not a registered base unit: its own dimension, recursively
                if f is u:
                    return tuple(u.dimension.exponents)
                d = self.expected_dim(f)
            for i, x in enumerate(d):
                v[i] += x * e
        return tuple(v)

    def check_unit(self, u, out, op, how):
        if not getattr(u, "_initialized", False):
            return
        if len(u.factors) == 1 and next(iter(u.factors)) is u:
            d = self.base_dims.get(id(u))
            if d is not None and d != tuple(u.dimension.exponents):
                out.fail("C01:base-unit-dimension-changed", f"base unit {u.name} changed dimension {d} -> {u.dimension.exponents} (after {op})")
            return
        want = self.expected_dim(u)
        if tuple(u.dimension.exponents) != want:
            where = self.creator.get(id(u), "?")
            out.fail(f"C01:registry:created-in:{where}", f"after {op}: unit {_s(u)} ({how}) reports dimension {u.dimension.exponents} but its factors give {want}")

    def check_new(self, out, op):
        m = self.m
        for u in list(m.Unit._known.values()):
            if id(u) not in self.known_ids:
                self.known_ids.add(id(u))
                self.keep.append(u)
                self.check_unit(u, out, op, "newly interned")

    def check_all(self, out, op):
        for u in list(self.m.Unit._known.values()):
            self.check_unit(u, out, op, "registry sweep")

    def add(self, u, mu):
        self.pool.append((u, mu))
        self.keep.append(u)


def run_case(case) -> core.Outcome:
    out = core.Outcome()
    try:
        init, ops = case["init"], case["ops"]
        if not isinstance(init, list) or not isinstance(ops, list) or not init:
            raise ValueError
        for o in ops:
            if o[0] not in OPS or not all(isinstance(x, int) and not isinstance(x, bool) for x in o[1:4]) or abs(o[3]) > 4:
                raise ValueError
    except Exception:
        out.invalid = True
        return out
    r = Run()
    m, snap = r.m, r.snap
    from IPython.lib.pretty import pretty

    conv = r.w.conversions
    jsonmod = r.w.load("json")
    cli = r.w.load("cli")
    r.check_new(out, "imports")  # units created while importing cli (systems) etc.
    spicy = [n for n in r.names if any(_dimkind(f.dimension.exponents) in ("mixed", "power", "multi", "neg") for f in snap.units[n].factors)]
    init_names = []
    for i in init:
        pool_names = spicy if (i % 10 < 6 and spicy) else r.names
        name = pool_names[(i // 10) % len(pool_names)]
        init_names.append(name)
        r.add(snap.units[name], snap.structure[name])
    seen_pairs = set()
    risky_render = False
    nontrivial = False
    for step, (op, i, j, n) in enumerate(ops):
        a, ma = r.pool[i % len(r.pool)]
        b, mb = r.pool[j % len(r.pool)]
        res = None
        shape = "plain"
        kinds = {_dimkind(f.dimension.exponents) for f in a.factors if f is not m.One}
        signs = {e > 0 for e in a.factors.values()}
        if len(a.factors) > 1 and (kinds & {"mixed", "power", "multi", "neg"}) and len(signs) == 2:
            shape = "compound-derived-mixed-sign"
        try:
            if op == "mul":
                res = (a * b, model.m_mul(ma, mb) if ma and mb else None)
            elif op == "div":
                res = (a / b, model.m_mul(ma, mb, -1) if ma and mb else None)
            elif op == "pow":
                res = (a**n, model.m_pow(ma, n) if ma else None)
            elif op == "root":
                try:
                    mr = model.m_root(ma, n) if ma else None
                    perfect = True
                except model.NotPerfectPower:
                    mr, perfect = None, False
                try:
                    u = a.root(n)
                    if not perfect and ma:
                        # the library extracted a root the factors do not have; the registry
                        # invariant below decides whether that left a wrong dimension behind
                        out.classes.append("root:non-perfect-power-returned")
                        res = (u, None)
                    else:
                        res = (u, mr)
                except ValueError:
                    pass
            elif op == "ratio":
                nu, de = a.as_ratio()
                if ma:
                    mn = ({k: e for k, e in ma[0].items() if e > 0}, dict(ma[1]))
                    md = ({k: -e for k, e in ma[0].items() if e < 0}, {})
                else:
                    mn = md = None
                r.add(nu, mn)
                res = (de, md)
            elif op == "str":
                str(a), str(2 * a)
            elif op == "fmt":
                format(a, "/"), format(3 * a, ":/")
            elif op == "repr":
                repr(a), repr(2 * a)
            elif op == "pretty":
                pretty(a)
            elif op == "qpretty":
                pretty(2 * a), pretty(m.Measurement(2 * a, 1))
            elif op == "html":
                a._repr_html_(), (2 * a)._repr_html_(), a.dimension._repr_html_()
            elif op == "parse":
                try:
                    u = m.Unit.parse(str(a))
                    res = (u, None)
                except Exception:
                    pass
            elif op == "conv":
                try:
                    (2 * a).in_unit(b)
                except Exception:
                    pass
                try:
                    (2 * b).in_unit(a)
                except Exception:
                    pass
            elif op in ("convswap", "powconv", "powprodconv"):
                # convert to a partner built by swapping every base factor for another
                # registered unit of the same dimension (how real conversions look)
                if op == "powprodconv":
                    # a product of equal powers whose common root was never built
                    # (m**2 * s**2 / min**2): conversions take that root themselves
                    k_ = 2 if n % 2 == 0 else 3
                    groups = [g for _, g in sorted(r.bydim.items()) if len(g) >= 2]
                    if j % 3 and groups:
                        # ... times a dimensionless ratio of two units of one kind, so that the whole
                        # has the dimension of a**k and converts to (another unit like a)**k
                        g = groups[(j // 3) % len(groups)]
                        b, mb = g[j % len(g)], None
                        c2 = g[(j // 5 + 1) % len(g)]
                        mb = model.m_mul(snap.structure[b.name], snap.structure[c2.name], -1)
                        b = b / c2
                    src = a**k_ * b**k_ if n > 0 else a**k_ / b**k_
                else:
                    src = a**n if op == "powconv" else a
                dst = m.One
                k = j
                if op == "powprodconv" and j % 3 and tuple(a.dimension.exponents) in r.bydim and len(a.factors) == 1:
                    alts = r.bydim[tuple(a.dimension.exponents)]
                    dst = alts[(j // 7) % len(alts)] ** (k_ if n > 0 else k_)
                    try:
                        (2 * src).in_unit(dst)
                    except Exception:
                        pass
                    dst = None
                for f, e in list(src.factors.items()) if dst is not None else []:
                    if f is m.One:
                        continue
                    alts = r.bydim.get(tuple(f.dimension.exponents), [f])
                    dst = dst * alts[k % len(alts)] ** e
                    k = k // 7 + 1
                try:
                    if dst is not None:
                        (2 * src).in_unit(dst)
                except Exception:
                    pass
                if op == "powprodconv":
                    mm = None
                    if ma and mb:
                        mm = model.m_mul(model.m_pow(ma, k_), model.m_pow(mb, k_), 1 if n > 0 else -1)
                    res = (src, mm)
                    # the common root, built by ordinary arithmetic after the conversion
                    root_unit = a * b if n > 0 else a / b
                    r.add(root_unit, model.m_mul(ma, mb, 1 if n > 0 else -1) if (ma and mb) else None)
                else:
                    res = (src, model.m_pow(ma, n) if (ma and op == "powconv") else ma)
            elif op == "cmp":
                try:
                    (2 * a) == (3 * b), (2 * a) < (3 * b)
                except Exception:
                    pass
            elif op == "add":
                try:
                    q = (2 * a) + (3 * b)
                    res = (q.unit, ma)
                except Exception:
                    pass
            elif op == "unprefixed":
                q = (2 * a).unprefixed()
                res = (q.unit, (dict(ma[0]), {}) if ma else None)
            elif op == "pickle":
                u = pickle.loads(pickle.dumps(a))
                u2 = copy.deepcopy(a)
                q = pickle.loads(pickle.dumps(2 * a))
                res = (u, ma)
            elif op == "json":
                s = json.dumps(a, cls=jsonmod.MeasuredJSONEncoder)
                u = json.loads(s, cls=jsonmod.MeasuredJSONDecoder)
                res = (u, ma) if isinstance(u, m.Unit) else None
                try:
                    json.loads(json.dumps(2 * a, cls=jsonmod.MeasuredJSONEncoder), cls=jsonmod.MeasuredJSONDecoder)
                except Exception:
                    pass
            elif op == "helper":
                try:
                    r.w.load(HELPERS[i % len(HELPERS)])
                except ImportError:
                    pass
            elif op == "cli":
                buf = io.StringIO()
                with contextlib.redirect_stdout(buf):
                    try:
                        cli.print_quantity("3 " + str(a))
                    except SystemExit:
                        pass
            elif op == "define":
                r.ndefined += 1
                name = f"vf01-{r.ndefined}"
                u = m.Unit.define(a.dimension, name, name)
                r.base_dims[id(u)] = tuple(a.dimension.exponents)
                snap.register_base(u)
                res = (u, ({name: 1}, {}))
            elif op in ("numer", "denom"):
                u = m.One
                for f, e in list(a.factors.items()):
                    if f is m.One:
                        continue
                    if (e > 0) == (op == "numer"):
                        u = u * f ** abs(e)
                mu = None
                if ma:
                    mu = ({k: abs(e) for k, e in ma[0].items() if (e > 0) == (op == "numer")}, {})
                res = (u, mu)
                if risky_render:
                    nontrivial = True
            elif op == "prefix":
                pname = r.pfx[n % len(r.pfx)]
                p = snap.prefixes[pname]
                res = (p * a, model.m_mul(ma, ({}, model.m_prefix_of(p))) if ma else None)
        except Exception as e:  # noqa
            out.classes.append(f"op-raised:{op}:{type(e).__name__}")
        if op in ("fmt", "pretty", "qpretty", "html", "cli", "ratio", "root", "conv", "convswap", "powconv", "powprodconv", "cmp", "add", "str") and shape != "plain":
            risky_render = True
            seen_pairs.add((op, _s(a)))
        out.classes.append(f"op:{op}")
        if res is not None and isinstance(res[0], m.Unit):
            r.add(*res)
        # (a) registry invariant
        r.check_new(out, op)
        if step % 8 == 7 or step == len(ops) - 1:
            r.check_all(out, op)
        # (b) history independence of pool values
        for u, mu in r.pool[-2:]:
            if mu is None:
                continue
            want = snap.model_dim(mu)
            if tuple(u.dimension.exponents) != want:
                where = r.creator.get(id(u), "?")
                out.fail(f"C01:registry:created-in:{where}", f"{op}: the expression evaluates to unit {_s(u)} with dimension {u.dimension.exponents}; its construction gives {want} (history-dependent result)")
        if out.failures:
            break
    if nontrivial or seen_pairs:
        out.nontrivial = "|".join(sorted(f"{o}:{s}" for o, s in seen_pairs)) + ("|parts-after-wholes" if nontrivial else "")
        out.sample = {"initial": init_names, "ops": [o[0] for o in ops]}
    if nontrivial:
        out.classes.append("parts-after-wholes")
    return out


def still_fails(case, bucket):
    return any(f.bucket == bucket for f in run_case(case).failures)


def vacuity(col):
    missing = [k for k in ("parts-after-wholes", "op:ratio", "op:root", "op:conv", "op:cli") if not col.classes.get(k)]
    return missing or None
