"""C10 -- temperature scales convert by their exact affine definitions.

Grid: all 12 ordered pairs of {celsius, kelvin, rankine, fahrenheit} x every registered
prefix (and no prefix) on the source x the same on the target is enumerated exhaustively;
magnitudes (int / float / Decimal, including values below absolute zero and values that
straddle each zero point) come from a fixed table in the enumeration and from Hypothesis in
the generated part.

Oracle (never looks at the library's conversion tables): the closed-form definitions
    C = K - 273.15      F = R - 459.67      R = 9/5 K
evaluated in fractions.Fraction with 273.15 and 459.67 as exact decimals; a prefixed scale
p.S reads x when the unprefixed scale reads x * value(p) (value(p) = base**exponent exactly).

Clauses
    direct     (x * pS.S).in_unit(pD.D) has unit pD.D and the oracle's magnitude
    roundtrip  ... .in_unit(pS.S) gives x back (only judged when `direct` held)
    abs0       the reading of absolute zero on the source maps to absolute zero on the target
    diff       conv(x + d) - conv(x) == d * degree ratio
    eq/order   == != < > <= >= of (x pS.S) against (y pD.D), both ways round, agree with the
               kelvin values whenever the pair is not a floating-point tie

Tolerance: 1e-12 relative (DESIGN 2.9 first said 1e-9; tightened after seed f10-1, DESIGN 9.5) to the largest magnitude the temperature takes
on any scale that lies on the definitional chain between source and target
(celsius - kelvin - rankine - fahrenheit), expressed in the unit being compared.  For a pair
with an offset this is at least 1e-12 x half the zero point; for kelvin <-> rankine it is purely
relative.
"""
from __future__ import annotations

import decimal
import functools
import math
import operator
import sys
from decimal import Decimal
from fractions import Fraction

from hypothesis import strategies as st

from .. import core
from ..world import shared_world

ID = "C10"
RULE = (
    "Exhaustive grid of 12 ordered scale pairs x (no prefix, every prefix registered under a name, "
    "and every anonymous prefix exported by a shipped module -- si.Deci and iec.Eight on the pinned "
    "tree) on the source x the same on the target, each grid point with magnitudes of all three numeric types taken "
    "from a fixed table of physical temperatures (absolute zero, both zero points and their "
    "neighbours, -40, below absolute zero, 1e-3 K .. 1e7 K); plus Hypothesis-generated cases "
    "(pair, prefixes, int/float/Decimal magnitude either literal in +-1e6 or a perturbed physical "
    "temperature, a delta, and a comparison operand that is far / near (1e-7..1e-3 of scale) / a "
    "tie). |magnitude x prefix| is 0 or within 1e-30..1e30. Non-trivial: a side is prefixed or "
    "the pair needs >= 2 definitional hops (F<->C, F<->K, C<->R); distinct = (pair, source "
    "prefix, target prefix, magnitude type, temperature region)."
)
ASSUMPTIONS = [
    "a prefix's value is base**exponent with base and exponent read from the library's prefix object once at start-up",
    "the four scales are looked up by their registered names kelvin, celsius, Rankine, fahrenheit",
    "a prefixed scale p.S reads x when S reads x*value(p) (C11's reading of a prefix)",
    "results within 1e-12 of the largest magnitude on the definitional chain count as 'up to rounding' (so the 2e-14 noise of float-stored zero points in Decimal results is accepted)",
    "pairs whose kelvin values differ by less than that tolerance are ties: only absence of exceptions, bool results and 'not (a == b and a < b)' are demanded of them",
]

TOL = Fraction(1, 10**12)
LO, HI = Fraction(1, 10**30), Fraction(10**30)

Z_C = Fraction("273.15")
Z_F = Fraction("459.67")
R_K = Fraction(5, 9)  # size of one rankine degree in kelvins

CHAIN = ["celsius", "kelvin", "rankine", "fahrenheit"]  # definitional chain, in order
IDX = {s: i for i, s in enumerate(CHAIN)}
DEG = {"celsius": Fraction(1), "kelvin": Fraction(1), "rankine": R_K, "fahrenheit": R_K}
OFFSET_SCALES = ("celsius", "fahrenheit")
PAIRS = [(a, b) for a in CHAIN for b in CHAIN if a != b]

# physical temperatures (kelvin, exact) used by the enumeration and as seeds of generation
KPOINTS = [
    Fraction(0),
    Z_C,  # 0 degC
    Z_F * R_K,  # 0 degF
    Fraction("233.15"),  # -40 on both
    Fraction("373.15"),
    Fraction("293.15"),
    Fraction("310.15"),
    Fraction("273.16"),
    Fraction("273.14"),
    Fraction("255.38"),
    Fraction("255.36"),
    Fraction(1),
    Fraction(1, 1000),
    Fraction(5778),
    Fraction(10**7),
    Fraction("-226.85"),  # -500 degC: below absolute zero
    Fraction(-1),
    Fraction(-(10**4)),
    Fraction("0.01"),
    Fraction("-0.01"),
]
DELTAS = {
    "i": [1, -1, 7, 100, -40],
    "f": [0.5, -2.25, 1e-3, 37.0, -1e2],
    "D": ["0.1", "-1.5", "12.345", "100", "-0.001"],
}
NEAR = [Fraction(1, 10**7), Fraction(-1, 10**7), Fraction(1, 10**5), Fraction(-1, 10**4), Fraction(1, 10**3), Fraction(-1, 10**6)]

UNITS = {}  # scale key -> library unit
PFX = {}  # prefix key ("" = none) -> (library prefix or None, exact value)
PFX_KEYS = []
_UNIT_CACHE = {}
M = None


# ---------------------------------------------------------------- oracle (pure Fractions)


def to_k(scale, v):
    if scale == "kelvin":
        return v
    if scale == "celsius":
        return v + Z_C
    if scale == "rankine":
        return v * R_K
    if scale == "fahrenheit":
        return (v + Z_F) * R_K
    raise KeyError(scale)


def from_k(scale, k):
    if scale == "kelvin":
        return k
    if scale == "celsius":
        return k - Z_C
    if scale == "rankine":
        return k / R_K
    if scale == "fahrenheit":
        return k / R_K - Z_F
    raise KeyError(scale)


def chain_between(s, d):
    i, j = sorted((IDX[s], IDX[d]))
    return CHAIN[i : j + 1]


def span(k, s, d):
    """largest magnitude (in kelvin-sized degrees) the temperature k takes on a scale of the chain s..d"""
    return max(abs(from_k(c, k)) * DEG[c] for c in chain_between(s, d))


def has_offset(s, d):
    return s in OFFSET_SCALES or d in OFFSET_SCALES


def leg_shape(s, sp, d, dp):
    path = "offset" if has_offset(s, d) else "linear"
    pfx = "target-prefixed" if dp else ("source-prefixed" if sp else "unprefixed")
    return f"{path}:{pfx}"


# ---------------------------------------------------------------- set-up


WARM_UP = {"attempted": 0, "returned": 0}


def _warm_up():
    """History before the grid: the scales are first used inside compound units ("per degree":
    J/K -> J/degF, W/(m.K) ..., degree-seconds) and in comparisons.  None of that may change
    what a plain scale conversion answers afterwards; outcomes of the warm-up itself (some
    raise ConversionNotFound) are not judged here."""
    joule, meter, second = (M.Unit._by_name[n] for n in ("joule", "meter", "second"))
    scales = [UNITS[k] for k in CHAIN]
    for x in scales:
        for y in scales:
            if x is y:
                continue
            # (one conversion with the scale in a denominator per ordered pair: an even number of
            # them could undo whatever the first one left behind)
            for src, dst in ((joule / x, joule / y), (x * second, y * second), (x**2, y**2)):
                WARM_UP["attempted"] += 1
                try:
                    (3 * src).in_unit(dst)
                    WARM_UP["returned"] += 1
                except Exception:  # noqa
                    pass
                try:
                    (3 * src) == (3 * dst)
                    (3 * src) < (3 * dst)
                except Exception:  # noqa
                    pass


def _warm_up_under_a_coarse_decimal_context():
    """The first Decimal conversion into every prefixed scale happens while the program works at
    four significant digits (decimal.localcontext): whatever the library works out then is that
    computation's business and must not be what a later, full-precision conversion uses."""
    with decimal.localcontext() as ctx:
        ctx.prec = 4
        for s_ in CHAIN:
            for d_ in CHAIN:
                for pk in PFX_KEYS:
                    try:
                        p = PFX[pk][0]
                        dst = UNITS[d_] if p is None else p * UNITS[d_]
                        (Decimal("100000") * UNITS[s_]).in_unit(dst)
                        Decimal("20.5") * UNITS[s_] == Decimal("20.5") * dst
                    except Exception:  # noqa -- outcomes at four digits are not judged
                        pass
                    WARM_UP["coarse-context"] = WARM_UP.get("coarse-context", 0) + 1


def setup(tier):
    global M, PFX_KEYS
    if UNITS:
        return
    w = shared_world()
    M = w.m
    by_lower = {}
    for name in sorted(M.Unit._by_name):
        by_lower.setdefault(name.lower(), M.Unit._by_name[name])
    for key in CHAIN:
        UNITS[key] = by_lower[key]
    PFX[""] = (None, Fraction(1))
    seen = set()
    for p in w.named_prefixes():
        if p.exponent == 0 or not p.name:
            continue
        PFX[p.name] = (p, Fraction(p.base) ** int(p.exponent))
        seen.add(id(p))
    # prefixes that are exported by a unit module but were left without a name (on the pinned
    # tree: si.Deci, see C19) are registered prefixes too; they go by their attribute name
    for modname in sorted(k for k in sys.modules if k.startswith("measured.")):
        mod = sys.modules[modname]
        for attr in sorted(vars(mod)):
            p = vars(mod)[attr]
            if isinstance(p, M.Prefix) and id(p) not in seen and p.exponent != 0 and attr.lower() not in PFX:
                PFX[attr.lower()] = (p, Fraction(p.base) ** int(p.exponent))
                seen.add(id(p))
    PFX_KEYS = sorted(PFX, key=lambda k: (PFX[k][1], k))
    _warm_up()
    _warm_up_under_a_coarse_decimal_context()


def unit_of(scale, prefix):
    u = _UNIT_CACHE.get((scale, prefix))
    if u is None:
        p = PFX[prefix][0]
        u = UNITS[scale] if p is None else p * UNITS[scale]
        _UNIT_CACHE[(scale, prefix)] = u
    return u


def budget(tier):
    if tier == "quick":
        return {"examples": 2500, "shards": 1}
    return {"examples": 25000, "shards": 16}


# ---------------------------------------------------------------- magnitudes <-> JSON


def lit(typ, v):
    """JSON literal of type typ nearest to the exact value v"""
    if typ == "i":
        return ["i", int(round(v))]
    if typ == "f":
        return ["f", float(v)]
    with decimal.localcontext() as ctx:
        ctx.prec = 18
        return ["D", str(Decimal(v.numerator) / Decimal(v.denominator))]


def parse_mag(spec):
    typ, val = spec
    if typ == "i":
        if isinstance(val, bool) or not isinstance(val, int):
            raise ValueError(spec)
        return val
    if typ == "f":
        if not isinstance(val, float) or not math.isfinite(val):
            raise ValueError(spec)
        return val
    if typ == "D":
        if not isinstance(val, str):
            raise ValueError(spec)
        x = Decimal(val)
        if not x.is_finite():
            raise ValueError(spec)
        return x
    raise ValueError(spec)


def in_bounds(v):
    return v == 0 or LO <= abs(v) <= HI


def show(x):
    return f"Decimal('{x}')" if isinstance(x, Decimal) else repr(x)


def uname(scale, prefix):
    return f"{prefix}*{scale}" if prefix else scale


def fr(x):
    """exact value of a library result, or None when it is not a finite number"""
    if isinstance(x, bool):
        return None
    if isinstance(x, int):
        return Fraction(x)
    if isinstance(x, float):
        return Fraction(x) if math.isfinite(x) else None
    if isinstance(x, Decimal):
        return Fraction(x) if x.is_finite() else None
    if isinstance(x, Fraction):
        return x
    return None


def approx(v):
    try:
        return f"{float(v):.17g}"
    except OverflowError:
        return str(v)


# ---------------------------------------------------------------- case construction (shared
# by the enumeration and the Hypothesis strategy; uses the oracle only)


def exact_conv(s, sp, d, dp, fx):
    return from_k(d, to_k(s, fx * PFX[sp][1])) / PFX[dp][1]


@functools.lru_cache(maxsize=None)
def _physical_lit(typ, scale, prefix, k):
    v = from_k(scale, k) / PFX[prefix][1]
    spec = lit(typ, v)
    if not in_bounds(Fraction(parse_mag(spec)) * PFX[prefix][1]):
        spec = lit(typ, Fraction(0))
    return tuple(spec)


def physical_lit(typ, scale, prefix, k):
    """literal of type typ on the scale prefix.scale nearest to the temperature of k kelvins"""
    return list(_physical_lit(typ, scale, prefix, k))


def operand(mode, ytyp, s, sp, d, dp, xspec, kfar, near):
    fx = Fraction(parse_mag(xspec))
    k = to_k(s, fx * PFX[sp][1])
    if mode == "far":
        return physical_lit(ytyp, d, dp, kfar)
    e = exact_conv(s, sp, d, dp, fx)
    if mode == "near":
        kb = k + near * span(k, s, d)
        return physical_lit(ytyp, d, dp, kb)
    spec = lit(ytyp, e)
    if not in_bounds(Fraction(parse_mag(spec)) * PFX[dp][1]):
        spec = lit(ytyp, Fraction(0))
    return spec


def enumerate_cases(tier):
    setup(tier)
    yield {"cli": 1}
    per = 3 if tier == "quick" else 9
    n = 0
    modes = ["far", "near", "tie", "near"]
    for s, d in PAIRS:
        for sp in PFX_KEYS:
            for dp in PFX_KEYS:
                for j in range(per):
                    typ = "ifD"[(n + j) % 3]
                    k = KPOINTS[(n * 7 + j * 3) % len(KPOINTS)]
                    x = physical_lit(typ, s, sp, k)
                    dx = DELTAS[typ][(n + j) % len(DELTAS[typ])]
                    ytyp = "ifD"[(n // 3 + j) % 3] if n % 4 == 0 else typ
                    y = operand(
                        modes[(n + j) % 4], ytyp, s, sp, d, dp, x,
                        KPOINTS[(n * 5 + j + 3) % len(KPOINTS)], NEAR[(n + j) % len(NEAR)],
                    )
                    yield {"s": s, "sp": sp, "d": d, "dp": dp, "x": x, "dx": [typ, dx], "y": y}
                    n += 1


@st.composite
def _case(draw):
    s, d = draw(st.sampled_from(PAIRS))
    pk = st.one_of(st.just(""), st.sampled_from(PFX_KEYS), st.sampled_from(PFX_KEYS))
    sp, dp = draw(pk), draw(pk)
    typ = draw(st.sampled_from("ifD"))

    def magnitude(t, scale, prefix):
        if draw(st.booleans()):
            k = draw(st.sampled_from(KPOINTS))
            k = k + draw(st.sampled_from([0, 0, 1, -1, 3])) * draw(st.sampled_from([Fraction(1, 10**6), Fraction(1, 100), Fraction(1), Fraction(17, 3), Fraction(1, 10**7), Fraction(1, 10**8), Fraction(1, 10**9)]))
            if draw(st.integers(0, 5)) == 0:
                k = k * draw(st.sampled_from([Fraction(1000), Fraction(1, 1000), Fraction(10**6)]))
            return physical_lit(t, scale, prefix, k)
        if t == "i":
            return ["i", draw(st.integers(-(10**6), 10**6))]
        if t == "f":
            x = draw(st.floats(min_value=-1e6, max_value=1e6, allow_nan=False, allow_infinity=False))
            if x != 0 and abs(x) < 1e-6:
                x = 0.0
            return ["f", float(x)]
        places = draw(st.integers(0, 6))
        q = draw(st.integers(-(10**6) * 10**places, 10**6 * 10**places))
        return ["D", str(Decimal(q).scaleb(-places))]

    x = magnitude(typ, s, sp)
    dxv = magnitude(typ, s, sp) if draw(st.integers(0, 3)) == 0 else [typ, draw(st.sampled_from(DELTAS[typ]))]
    mode = draw(st.sampled_from(["far", "near", "near", "tie"]))
    ytyp = draw(st.sampled_from([typ, typ, "i", "f", "D"]))
    if mode == "far" and draw(st.booleans()):
        y = magnitude(ytyp, d, dp)
    else:
        near = draw(st.sampled_from(NEAR)) * draw(st.sampled_from([1, 1, 3, 10]))
        y = operand(mode, ytyp, s, sp, d, dp, x, draw(st.sampled_from(KPOINTS)), near)
    return {"s": s, "sp": sp, "d": d, "dp": dp, "x": x, "dx": dxv, "y": y}


def strategy(tier):
    setup(tier)
    return _case()


# ---------------------------------------------------------------- the check


def _mtype(*xs):
    return "Decimal" if any(isinstance(x, Decimal) for x in xs) else "binary"


H1 = "offset-not-scaled-by-target-prefix"


def _h1(s, sp, d, dp, fx, g):
    """Signature of one already understood wrong formula, evaluated by the oracle: the target
    prefix is divided out of the magnitude first and the zero-point offsets are added
    afterwards, unscaled.  True when the observed value g is what that formula gives (and the
    formula differs from the definition, i.e. the target is prefixed and the pair has an offset)."""
    pd = PFX[dp][1]
    if pd == 1 or not has_offset(s, d):
        return False
    m = fx * PFX[sp][1] / pd
    alt = from_k(d, to_k(s, m))
    return abs(g - alt) <= TOL * max(abs(alt), abs(m), Z_F)


def _leg(out, clause, s, sp, d, dp, x):
    """One library conversion of the literal x from sp.s to dp.d, judged against the oracle.
    Returns (ok, quantity or None)."""
    shape = leg_shape(s, sp, d, dp)
    fx = Fraction(x)
    ps, pd = PFX[sp][1], PFX[dp][1]
    src, dst = unit_of(s, sp), unit_of(d, dp)
    call = f"({show(x)} * {uname(s, sp)}).in_unit({uname(d, dp)})"
    try:
        got = (x * src).in_unit(dst)
    except Exception as e:  # noqa: BLE001 -- every escaping exception is a finding
        out.fail(
            f"C10:convert:raises:{type(e).__name__}@{core.innermost_frame(e)}:{shape}:{_mtype(x)}",
            f"[{clause}] {call} raised {type(e).__name__}: {e}",
        )
        return False, None
    if not isinstance(got, M.Quantity):
        out.fail(f"C10:{clause}:result-type:{shape}", f"{call} returned {type(got).__name__}")
        return False, None
    if got.unit is not dst:
        out.fail(f"C10:{clause}:unit:{shape}", f"{call} is expressed in {got.unit!r}, not in the requested unit")
        return False, got
    k = to_k(s, fx * ps)
    exact = from_k(d, k) / pd
    tol = TOL * span(k, s, d) / (DEG[d] * pd)
    g = fr(got.magnitude)
    if g is None:
        if isinstance(got.magnitude, (int, float, Decimal)) and not isinstance(got.magnitude, bool):
            out.inconclusive = "float-range"  # non-finite result (cannot happen within the bounds)
            return False, got
        out.fail(f"C10:{clause}:magnitude-type:{shape}", f"{call} has magnitude {got.magnitude!r}")
        return False, got
    err = abs(g - exact)
    if err <= tol:
        return True, got
    sig = H1 if _h1(s, sp, d, dp, fx, g) else f"value:{abs(IDX[s] - IDX[d])}hop"
    out.fail(
        f"C10:{clause}:{shape}:{sig}",
        f"{call} = {show(got.magnitude)}; exact {approx(exact)}; |error| {approx(err)} > tolerance {approx(tol)}",
    )
    return False, got


def _abs_zero_literal(x, s, sp):
    z = from_k(s, Fraction(0)) / PFX[sp][1]
    if isinstance(x, Decimal):
        return parse_mag(lit("D", z))
    if isinstance(x, int) and z.denominator == 1:
        return int(z)
    return float(z)


_OPS = [
    ("eq", "==", lambda a, b: a == b),
    ("eq", "!=", lambda a, b: a != b),
    ("order", "<", lambda a, b: a < b),
    ("order", ">", lambda a, b: a > b),
    ("order", "<=", lambda a, b: a <= b),
    ("order", ">=", lambda a, b: a >= b),
]
# the second direction (operand in the target scale on the left, i.e. the conversion runs the
# other way) gets the four operators that cost one conversion each; > and <= are derived from
# < and == by functools.total_ordering and were already exercised in the first direction
_OPS_BA = [op for op in _OPS if op[1] in ("==", "!=", "<", ">=")]


_EXPECT = {"==": operator.eq, "!=": operator.ne, "<": operator.lt, ">": operator.gt, "<=": operator.le, ">=": operator.ge}


def _expected(sym, ka, kb):
    return _EXPECT[sym](ka, kb)


def _compare(out, s, sp, d, dp, x, y):
    a, b = x * unit_of(s, sp), y * unit_of(d, dp)
    ka = to_k(s, Fraction(x) * PFX[sp][1])
    kb = to_k(d, Fraction(y) * PFX[dp][1])
    scale = max(span(ka, s, d), span(kb, s, d))
    tie = abs(ka - kb) <= TOL * scale
    out.classes.append("cmp:tie" if tie else "cmp:decided")
    if not tie and abs(ka - kb) <= Fraction(1, 1000) * scale:
        out.classes.append("cmp:decided-near")
    shape = ("offset" if has_offset(s, d) else "linear") + ":" + ("prefixed" if sp or dp else "unprefixed")
    mt = _mtype(x, y)
    res = {}
    for (na, qa, ka_), (nb, qb, kb_), tag in (
        ((f"{show(x)} {uname(s, sp)}", a, ka), (f"{show(y)} {uname(d, dp)}", b, kb), "ab"),
        ((f"{show(y)} {uname(d, dp)}", b, kb), (f"{show(x)} {uname(s, sp)}", a, ka), "ba"),
    ):
        for clause, sym, fn in _OPS if tag == "ab" else _OPS_BA:
            try:
                r = fn(qa, qb)
            except Exception as e:  # noqa: BLE001
                out.fail(
                    f"C10:compare:raises:{type(e).__name__}@{core.innermost_frame(e)}:{shape}:{mt}",
                    f"({na}) {sym} ({nb}) raised {type(e).__name__}: {e}",
                )
                continue
            if r is not True and r is not False:
                out.fail(f"C10:{clause}:not-bool:{shape}", f"({na}) {sym} ({nb}) returned {r!r}")
                continue
            res[(tag, sym)] = r
            if not tie and r != _expected(sym, ka_, kb_):
                out.fail(
                    f"C10:{clause}:{shape}",
                    f"({na}) {sym} ({nb}) is {r}; kelvin values {approx(ka_)} vs {approx(kb_)} "
                    f"(apart by {approx(abs(ka - kb))}, tie threshold {approx(TOL * scale)})",
                )
    for tag in ("ab", "ba"):
        # both results come from one and the same converted value, whatever its rounding
        if res.get((tag, "==")) and res.get((tag, "<")):
            out.fail(f"C10:order:eq-and-lt:{shape}", f"{'a, b' if tag == 'ab' else 'b, a'}: == and < both hold for {show(x)} {uname(s, sp)} vs {show(y)} {uname(d, dp)}")


def _region(k):
    if k < 0:
        return "below-abs0"
    if k == 0:
        return "abs0"
    if k < Z_F * R_K:
        return "below-0F"
    if k < Z_C:
        return "0F..0C"
    return "above-0C"


def _run_cli(out):
    """the command line (`measured <quantity>`, measured.cli.print_quantity) lists a temperature on
    every other scale with a conversion routine of its own: what it lists, for every scale, prefix
    and a few magnitudes, is held to the affine definitions as well"""
    import contextlib
    import io

    try:
        import measured.cli as cli
    except Exception as e:  # noqa
        out.inconclusive = f"cli-not-importable:{type(e).__name__}"
        return
    names = {"kelvin": "kelvin", "celsius": "celsius", "fahrenheit": "fahrenheit", "rankine": "rankine"}
    n = 0
    for s in CHAIN:
        for sp in PFX_KEYS:
            pfx, pv = PFX[sp]
            unit = UNITS[s] if pfx is None else pfx * UNITS[s]
            for mag in (1, 0, -40, 2.5, 300):
                try:
                    text = str(M.Quantity(mag, unit))
                    if M.Quantity.parse(text).unit is not unit:
                        continue
                except Exception:  # noqa -- rendering / parsing are C13's subject
                    continue
                buf = io.StringIO()
                try:
                    with contextlib.redirect_stdout(buf):
                        cli.print_quantity(text)
                except SystemExit:
                    continue
                except Exception as e:  # noqa
                    out.fail(f"C10:cli:raises:{type(e).__name__}@{core.innermost_frame(e)}", f"measured {text!r}: {type(e).__name__}: {e}")
                    continue
                k = to_k(s, Fraction(mag) * pv)
                lines = buf.getvalue().split("Equivalent to:")[-1].splitlines()
                listed = {}
                for line in lines:
                    parts = line.split()
                    if len(parts) >= 2 and " ".join(parts[1:]).lower() in names:
                        try:
                            listed[" ".join(parts[1:]).lower()] = float(parts[0])
                        except ValueError:
                            pass
                for d in CHAIN:
                    if d == s:
                        continue
                    if d not in listed:
                        out.fail("C10:cli:scale-not-listed", f"measured {text!r} does not list {d}")
                        continue
                    want = from_k(d, k)
                    n += 1
                    tol = 1e-9 * max(abs(float(k)), abs(float(want)), abs(float(Fraction(mag) * pv)), 1.0)
                    if abs(listed[d] - float(want)) > tol:
                        out.fail(f"C10:cli:value:{leg_shape(s, sp, d, '')}", f"measured {text!r} lists {listed[d]!r} {d}, the affine definitions give {float(want)!r}")
                if len(out.failures) > 8:
                    return
    out.classes.append("cli-listing")
    out.nontrivial = "cli-listing"
    out.sample = {"cli_values_checked": n}


def run_case(case) -> core.Outcome:
    out = core.Outcome()
    if not UNITS:
        setup("quick")
    if isinstance(case, dict) and case.get("cli"):
        _run_cli(out)
        return out
    try:
        s, sp, d, dp = case["s"], case["sp"], case["d"], case["dp"]
        if s not in IDX or d not in IDX or s == d or sp not in PFX or dp not in PFX:
            raise KeyError((s, sp, d, dp))
        x = parse_mag(case["x"])
        dx = parse_mag(case["dx"])
        y = parse_mag(case["y"])
        if type(dx) is not type(x):
            raise ValueError("delta type")
    except Exception:  # noqa: BLE001 -- malformed spec (shrinker)
        out.invalid = True
        return out
    ps, pd = PFX[sp][1], PFX[dp][1]
    fx = Fraction(x)
    if not in_bounds(fx * ps) or not in_bounds(Fraction(y) * pd):
        out.invalid = True
        return out
    k = to_k(s, fx * ps)
    hops = abs(IDX[s] - IDX[d])
    mt = {int: "int", float: "float", Decimal: "Decimal"}[type(x)]
    out.classes += [
        f"pair:{s}>{d}", f"type:{mt}", f"region:{_region(k)}", f"leg:{leg_shape(s, sp, d, dp)}", f"hops:{hops}",
        "prefix:" + ("both" if sp and dp else "source" if sp else "target" if dp else "none"),
    ]

    # direct value, then the round trip from the value the library returned
    ok, got = _leg(out, "direct", s, sp, d, dp, x)
    if out.inconclusive:
        return out
    if ok:
        shape_back = leg_shape(d, dp, s, sp)
        src = unit_of(s, sp)
        call = f"({show(x)} * {uname(s, sp)}).in_unit({uname(d, dp)}).in_unit({uname(s, sp)})"
        try:
            back = got.in_unit(src)
            b = fr(back.magnitude)
            tol = 2 * TOL * span(k, s, d) / (DEG[s] * ps)
            if back.unit is not src:
                out.fail(f"C10:roundtrip:unit:{shape_back}", f"{call} is expressed in {back.unit!r}")
            elif b is None:
                out.inconclusive = "float-range"
            elif abs(b - fx) > tol:
                sig = H1 if _h1(d, dp, s, sp, fr(got.magnitude), b) else f"value:{hops}hop"
                out.fail(
                    f"C10:roundtrip:{shape_back}:{sig}",
                    f"{call} = {show(back.magnitude)} (via {show(got.magnitude)}); |error| {approx(abs(b - fx))} > tolerance {approx(tol)}",
                )
        except Exception as e:  # noqa: BLE001
            out.fail(
                f"C10:convert:raises:{type(e).__name__}@{core.innermost_frame(e)}:{shape_back}:{_mtype(got.magnitude)}",
                f"[roundtrip] {call} raised {type(e).__name__}: {e}",
            )

    # absolute zero of the source, in the magnitude type of the case
    _leg(out, "abs0", s, sp, d, dp, _abs_zero_literal(x, s, sp))

    # differences scale by the degree ratio (and by the prefixes)
    try:
        x2 = x + dx
    except Exception:  # noqa: BLE001
        x2 = None
    if x2 is not None and fr(x2) is not None and in_bounds(Fraction(x2) * ps):
        src, dst = unit_of(s, sp), unit_of(d, dp)
        call = f"({show(x2)} * {uname(s, sp)}).in_unit({uname(d, dp)}) - ({show(x)} * {uname(s, sp)}).in_unit({uname(d, dp)})"
        shape = leg_shape(s, sp, d, dp)
        try:
            g1 = fr(got.magnitude) if got is not None and got.unit is dst else fr((x * src).in_unit(dst).magnitude)
            g2 = fr((x2 * src).in_unit(dst).magnitude)
            if g1 is None or g2 is None:
                out.inconclusive = "float-range"
            else:
                want = (Fraction(x2) - fx) * ps * DEG[s] / (pd * DEG[d])
                k2 = to_k(s, Fraction(x2) * ps)
                tol = max(TOL * abs(want), TOL * max(span(k, s, d), span(k2, s, d)) / (DEG[d] * pd))
                if abs((g2 - g1) - want) > tol:
                    both = _h1(s, sp, d, dp, fx, g1) and _h1(s, sp, d, dp, Fraction(x2), g2)
                    out.fail(
                        f"C10:diff:{shape}:{H1 if both else 'value'}",
                        f"{call} = {approx(g2 - g1)}; exact {approx(want)} (= {approx(Fraction(x2) - fx)} x degree ratio {approx(ps * DEG[s] / (pd * DEG[d]))}); tolerance {approx(tol)}",
                    )
        except Exception as e:  # noqa: BLE001
            out.fail(
                f"C10:convert:raises:{type(e).__name__}@{core.innermost_frame(e)}:{shape}:{_mtype(x, x2)}",
                f"[diff] {call} raised {type(e).__name__}: {e}",
            )

    # equality and ordering across the two scales
    _compare(out, s, sp, d, dp, x, y)

    if sp or dp or hops >= 2:
        out.nontrivial = f"{s}>{d}|{sp}|{dp}|{mt}|{_region(k)}"
        out.sample = {
            "convert": f"({show(x)} * {uname(s, sp)}).in_unit({uname(d, dp)})",
            "exact": approx(exact_conv(s, sp, d, dp, fx)),
            "delta": show(dx),
            "compared_with": f"{show(y)} {uname(d, dp)}",
        }
    return out


def still_fails(case, bucket):
    return any(f.bucket == bucket for f in run_case(case).failures)


def vacuity(col):
    need = [f"pair:{a}>{b}" for a, b in PAIRS]
    need += ["type:int", "type:float", "type:Decimal", "region:below-abs0", "region:abs0", "region:above-0C"]
    need += ["prefix:both", "prefix:source", "prefix:target", "prefix:none", "hops:1", "hops:2", "hops:3"]
    need += ["leg:offset:target-prefixed", "leg:offset:source-prefixed", "leg:linear:target-prefixed"]
    need += ["cmp:tie", "cmp:decided", "cmp:decided-near"]
    return [c for c in need if not col.classes.get(c)]
