"""Executes C07 cases and returns plain outcome records; also runnable as a script so the
same case list can be executed by ``python`` and ``python -O`` in fresh subprocesses:

    python [-O] -m vf.props.c07_exec cases.json out.json
"""
from __future__ import annotations

import json
import sys

from .. import convgen, core, domain, synth

OPS = ["in_unit", "add", "sub", "eq", "lt", "sorted"]


def _record(fn):
    try:
        r = fn()
    except Exception as e:  # noqa
        return ["exc", type(e).__name__, core.innermost_frame(e)]
    if isinstance(r, bool):
        return ["b", r]
    if isinstance(r, list):
        return ["l", [[repr(q.magnitude), str(q.unit)] for q in r]]
    return ["v", convgen.show(r.magnitude), str(r.unit)]


def ops_on(a, b, B):
    return {
        "in_unit": _record(lambda: a.in_unit(B)),
        "add": _record(lambda: a + b),
        "sub": _record(lambda: a - b),
        "eq": _record(lambda: a == b),
        "lt": _record(lambda: a < b),
        "sorted": _record(lambda: sorted([b, a, b])),
    }


def ops_mixed(m, a, b, B):
    """the same impossible pair met through a Level (whose reference is in the other group's unit)
    and through a Measurement: comparisons report inequality or TypeError, arithmetic and level()
    raise ConversionNotFound"""
    lu = m.Decibel[1 * B]
    level = 3 * lu
    meas = m.approximately(b, 0.5)
    return {
        "eq:q-level": _record(lambda: a == level),
        "eq:level-q": _record(lambda: level == a),
        "ne:q-level": _record(lambda: a != level),
        "ne:level-q": _record(lambda: level != a),
        "eq:q-meas": _record(lambda: a == meas),
        "eq:meas-q": _record(lambda: meas == a),
        "lt:q-meas": _record(lambda: a < meas),
        "lt:meas-q": _record(lambda: meas < a),
        "le:meas-q": _record(lambda: meas <= a),
        "gt:meas-q": _record(lambda: meas > a),
        "add:q-meas": _record(lambda: (a + meas).measurand),
        "add:meas-q": _record(lambda: (meas + a).measurand),
        "sub:meas-q": _record(lambda: (meas - a).measurand),
        "in_unit:level": _record(lambda: a.level(lu).quantify()),
        "in_unit:level-quantified": _record(lambda: level.quantify().in_unit(a.unit)),
    }


def execute(case):
    """-> {'invalid': True} | {'pairs': [{'shape':..., 'determined': bool, 'ops': {...}}, ...]}"""
    g = case.get("g")
    if g in ("dok", "free", "pinned"):
        c = convgen.ctx()
        try:
            if not (convgen.valid_terms(c, case["src"]) and convgen.valid_terms(c, case["dst"])):
                return {"invalid": True}
            m1, m2 = convgen.mag_value(case["mag"]), convgen.mag_value(case["mag2"])
        except Exception:
            return {"invalid": True}
        A, B = convgen.build(c, case["src"]), convgen.build(c, case["dst"])
        if A.dimension is not B.dimension:
            return {"invalid": True}
        classes = domain.pair_classes(A, B, c.One)
        return {"pairs": [{"shape": "+".join(classes) or "D_ok", "determined": c.sizes.determined(A, B),
                           "label": f"{A} -> {B}", "ops": ops_on(m1 * A, m2 * B, B)}]}
    if g == "scales":
        # units with a zero point of their own (the temperature scales): pairs of equal dimension
        # like any other; values are C10's subject, here only the -O differential and the
        # exception types matter
        c = convgen.ctx()
        m = c.m
        try:
            sa, pa, sb, pb = case["a"], case["pa"], case["b"], case["pb"]
            A = (c.snap.prefixes[pa] * m.Unit._by_name[sa]) if pa else m.Unit._by_name[sa]
            B = (c.snap.prefixes[pb] * m.Unit._by_name[sb]) if pb else m.Unit._by_name[sb]
            m1, m2 = convgen.mag_value(case["mag"]), convgen.mag_value(case["mag2"])
        except Exception:
            return {"invalid": True}
        if A.dimension is not B.dimension or A.dimension is not m.Temperature:
            return {"invalid": True}
        return {"pairs": [{"shape": "scales", "determined": True, "label": f"{A} -> {B}", "ops": ops_on(m1 * A, m2 * B, B)}]}
    if g == "syn":
        from ..sizes import Sizes

        try:
            spec, queries = case["world"], case["queries"]
            if not synth.valid_spec(spec) or not isinstance(queries, list):
                return {"invalid": True}
        except Exception:
            return {"invalid": True}
        sw = synth.SynWorld(spec)
        m = sw.m
        sz = Sizes(sw.w, m.One)
        pairs = []
        for q in queries:
            if not synth.valid_query(sw, q):
                continue
            try:
                m1 = convgen.mag_value(q["mag"])
            except Exception:
                continue
            A, B = sw.build(q["src"]), sw.build(q["dst"])
            if A.dimension is not B.dimension:
                continue
            classes = domain.pair_classes(A, B, m.One) + domain.regroup_class(A, B, m.One, sz)
            pairs.append({"shape": "+".join(classes) or "D_ok", "determined": sz.determined(A, B),
                          "label": f"{A} -> {B}", "ops": ops_on(m1 * A, 2 * B, B)})
        return {"pairs": pairs}
    if g == "unlinked":
        # two small groups of units of one dimension with no declaration between the groups: every
        # conversion across is impossible, whatever the magnitudes (ints of thousands of digits
        # included: no arithmetic is ever done on them)
        from ..world import World

        try:
            m1, m2 = convgen.mag_value(case["mag"]), convgen.mag_value(case["mag2"])
            compound = bool(case.get("compound"))
        except Exception:
            return {"invalid": True}
        w = World([])
        m = w.m
        a, a2, b, b2, t = (m.Unit.define(d, n, n) for d, n in ((m.Length, "ua"), (m.Length, "ua2"), (m.Length, "ub"), (m.Length, "ub2"), (m.Time, "ut")))
        a2.equals(3 * a)
        b2.equals(7 * b)
        A, B = (a2 / t, b / t) if compound else (a2, b2)
        pairs = [{"shape": "unlinked", "determined": False, "label": f"{A} -> {B}", "ops": ops_on(m1 * A, m2 * B, B)},
                 {"shape": "unlinked", "determined": False, "label": f"{B} -> {A}", "ops": ops_on(m2 * B, m1 * A, A)}]
        # a length that is declared only through a quotient of other units (as the Hubble length is
        # through c/H0), against the other group
        ar = m.Unit.define(m.Area, "uar", "uar")
        a3 = m.Unit.define(m.Length, "ua3", "ua3")
        a3.equals(2 * ar / a)
        A3 = a3 / t if compound else a3
        pairs += [{"shape": "unlinked", "determined": False, "label": f"{A3} -> {B}", "ops": ops_on(m1 * A3, m2 * B, B)},
                  {"shape": "unlinked", "determined": False, "label": f"{B} -> {A3}", "ops": ops_on(m2 * B, m1 * A3, A3)}]
        if case.get("mixed"):
            pairs += [{"shape": "unlinked", "determined": False, "label": f"{A} against a level / measurement in {B}", "ops": ops_mixed(m, m1 * A, m2 * B, B)},
                      {"shape": "unlinked", "determined": False, "label": f"{B} against a level / measurement in {A3}", "ops": ops_mixed(m, m2 * B, m1 * A3, A3)}]
        return {"pairs": pairs}
    if g == "chain":
        from ..world import World

        try:
            n = int(case["n"])
            if not 2 <= n <= 5000:
                return {"invalid": True}
        except Exception:
            return {"invalid": True}
        w = World([])
        m = w.m
        us = [m.Unit.define(m.Length, f"c{i}", f"c{i}") for i in range(n)]
        for i in range(1, n):
            us[i].equals(2 * us[i - 1])
        a, b = 1 * us[-1], 1 * us[0]
        return {"pairs": [{"shape": "chain>=900" if n >= 900 else "chain<900", "determined": True, "label": f"chain of {n}",
                           "ops": ops_on(a, b, us[0])}]}
    return {"invalid": True}


def main(argv):
    with open(argv[1], encoding="utf-8") as fh:
        cases = json.load(fh)
    out = [execute(c) for c in cases]
    with open(argv[2], "w", encoding="utf-8") as fh:
        json.dump(out, fh)


if __name__ == "__main__":
    main(sys.argv)
