"""atheris entry point of the C17 check (run as a subprocess by vf.props.c17.post):

    python -m vf.props.c17_fuzz --out R.json --runs N --fuzz-seed S --corpus DIR [--dict F]

Every execution turns the fuzzer's bytes into a str (first byte even: utf-8 with
surrogateescape; odd: FuzzedDataProvider.ConsumeUnicode, which can yield lone surrogates)
and applies vf.props.c17.check_text -- the same oracle the Hypothesis part uses.  The target
never raises for a property failure (libFuzzer would stop at the first one): failures are
bucketed and written, with the tallies, to the JSON result file.  libFuzzer leaves through
_exit(), so the file is rewritten whenever a new failure is recorded, every FLUSH
executions, and when the requested number of executions is reached.
"""
from __future__ import annotations

import argparse
import json
import os
import sys
from collections import Counter


def main(argv=None) -> int:
    ap = argparse.ArgumentParser()
    ap.add_argument("--out", required=True)
    ap.add_argument("--runs", type=int, required=True)
    ap.add_argument("--fuzz-seed", type=int, default=1)
    ap.add_argument("--corpus", required=True)
    ap.add_argument("--dict")
    ap.add_argument("--max-len", type=int, default=96)
    args = ap.parse_args(argv)

    import atheris

    from . import c17

    with atheris.instrument_imports(include=["measured"], enable_loader_override=False):
        c17.setup("quick")

    state = {
        "n": 0,
        "classes": Counter(),
        "bucket_counts": Counter(),
        "failures": [],
        "per_bucket": Counter(),
        "nontrivial": 0,
        "keys": [],
        "seen": set(),
        "samples": [],
    }
    flush_every = 2000 if args.runs <= 100_000 else 50_000
    n_seeds = len([f for f in os.listdir(args.corpus)])

    def flush(complete: bool) -> None:
        tmp = args.out + ".tmp"
        with open(tmp, "w", encoding="utf-8") as fh:
            json.dump(
                {
                    "executions": state["n"],
                    "complete": complete,
                    "classes": dict(state["classes"]),
                    "bucket_counts": dict(state["bucket_counts"]),
                    "failures": state["failures"],
                    "nontrivial": state["nontrivial"],
                    "nontrivial_keys": state["keys"],
                    "samples": state["samples"],
                },
                fh,
                ensure_ascii=True,
            )
        os.replace(tmp, args.out)

    def decode(data: bytes) -> str:
        if not data:
            return ""
        if data[0] & 1:
            fdp = atheris.FuzzedDataProvider(data[1:])
            return fdp.ConsumeUnicode(len(data))
        return data[1:].decode("utf-8", "surrogateescape")

    def one(data: bytes) -> None:
        text = decode(data)
        out = c17.check_text(text)
        state["n"] += 1
        n = state["n"]
        cl = state["classes"]
        cl["class:fuzz"] += 1
        for c in out.classes:
            cl[c] += 1
        if out.nontrivial is not None and out.nontrivial not in state["seen"] and len(state["seen"]) < 200_000:
            # distinct non-trivial texts are counted up to this cap (a lower bound beyond it)
            state["seen"].add(out.nontrivial)
            state["nontrivial"] += 1
            if len(state["keys"]) < 20_000:
                state["keys"].append(out.nontrivial)
            if len(state["samples"]) < 4 and "Quantity" in (out.sample or {}).get("accepted_by", []) and n > n_seeds + 1:
                state["samples"].append(dict(out.sample, found_by="atheris"))
        new = False
        for f in out.failures:
            state["bucket_counts"][f.bucket] += 1
            if state["per_bucket"][f.bucket] < 8:
                state["per_bucket"][f.bucket] += 1
                state["failures"].append({"bucket": f.bucket, "detail": f.detail, "case": {"c": "fuzz", "parts": [ord(ch) for ch in text]}})
                new = True
        if new or n % flush_every == 0 or n >= args.runs:
            flush(n >= args.runs)

    flush(False)
    fargv = [sys.argv[0], f"-runs={args.runs}", f"-seed={args.fuzz_seed}", f"-max_len={args.max_len}", "-print_final_stats=0", "-verbosity=0", "-reload=0"]
    if args.dict:
        fargv.append(f"-dict={args.dict}")
    fargv.append(args.corpus)
    atheris.Setup(fargv, one)
    atheris.Fuzz()
    return 0


if __name__ == "__main__":
    sys.exit(main())
