"""C20 -- singletons stay singletons when constructed concurrently.

The harness owns the schedule (vf/sched.py): two or three threads evaluate expressions that
denote one *never-before-constructed* dimension, prefix or unit; a line tracer parks a thread
at every line of measured/__init__.py and a scheduler releases exactly one thread next, chosen
by the next integer of a generated list.  An execution is a pure function of (kind, schedule):
the fresh exponent comes from a process-wide counter at run time and is *not* part of the case
(the behaviour does not depend on its value, only on its freshness), so a case replays and
shrinks although run_case is not idempotent on the library's tables.

Oracle (exactly the statement): no thread raised; every thread obtained the same object; the
intern table holds exactly one entry denoting it and that entry is the object; a later
single-threaded evaluation of every expression returns it.  Constituents that the very same
expressions construct concurrently (the dimension and the prefix of a unit) are held to the
same standard, which is what lets a duplicated unit be attributed to its root cause.
"""
from __future__ import annotations

import hashlib
import itertools
from typing import Any, Callable, Dict, List, Optional, Tuple

from hypothesis import strategies as st

from .. import core, sched
from ..world import shared_world

ID = "C20"
RULE = (
    "Cases {kind, schedule}: kind picks 2 or 3 thunks that all denote one never-before-constructed "
    "object (fresh exponent from a process-wide counter): unit_pow Meter**n || Meter**n; unit_mul "
    "Meter**(n-1)*Meter || Meter**n (lru_cached Unit._multiply); dim_div Length**n/Time**m twice "
    "(Dimension._divide); prefix Prefix(7,n) || Prefix(7,n-1)*Prefix(7,1); prefixed_unit_pow "
    "(Kilo*Meter)**n twice; *3 variants add a third, differently spelled thunk. Schedules are "
    "Hypothesis lists of 0-400 small ints (uniform, run-length and biased shapes); at every line "
    "event in measured/__init__.py the scheduler releases alive[c % len(alive)] (exhausted list: "
    "round robin). Additionally, for two threads, ALL interleavings of the check-then-insert "
    "window lines (membership test .. insertion, located with inspect/ast) of the racing __new__ "
    "are enumerated depth-first, other lines running without a switch. Non-trivial: another "
    "thread was released at least once while a thread was parked between the membership test and "
    "the insertion of an interning __new__ (read off the trace). Distinct = (kind, the "
    "interleaving restricted to __new__/_multiply/_divide lines)."
)
ASSUMPTIONS = [
    "line granularity, not bytecode granularity: a thread is only preempted between source lines of measured/__init__.py and of Python-level library code it calls; C-level lru_cache internals and dict operations are atomic (they hold the GIL)",
    "behaviour of a case does not depend on the value of the fresh exponent, only on its freshness (the exponent is drawn from a process-wide counter at run time and is not stored in the case)",
    "Logarithm/LogarithmicUnit tables are outside the statement (dimensions, prefixes, units only)",
    "a repair that serialises __new__ with a lock would need scheduler support for blocked threads (a thread blocking on a lock held by a parked thread is reported as a harness error, exit 2, never as a violation)",
]
ENUMERATION_EXHAUSTIVE = False  # only the sub-space flagged in coverage['exhaustive_subspaces'] is

CLASSES = ("Dimension", "Prefix", "Unit")
KINDS2 = ["unit_pow", "unit_mul", "dim_div", "prefix", "prefixed_unit_pow"]
KINDS3 = [k + "3" for k in KINDS2]
# one thread asks for a name along with the object (accepted, or rejected because the name or
# symbol is taken: the rejected thread gets a ValueError, the others must still agree)
KINDS_NAMED = ["prefix_named", "prefix_rejected", "unit_named", "unit_rejected", "dim_named", "dim_rejected"]
# nested expressions (the inner operand is itself a first-time construction and is used at once),
# and two threads that define two *different* new units which are multiplied afterwards
KINDS_NESTED = ["unit_pow_mul", "unit_pow_mul3", "two_defines", "unit_parsed", "unit_parsed3", "prefix_decimal", "prefix_decimal3"]
KINDS = KINDS2 + KINDS3 + KINDS_NAMED + KINDS_NESTED
# exhaustively enumerated sub-space: (kind, class whose __new__ window lines are decision points)
ENUM = [
    ("dim_div", "Dimension"),
    ("prefix", "Prefix"),
    ("unit_pow", "Unit"),
    ("unit_pow", "Dimension"),
    ("prefixed_unit_pow", "Prefix"),
    ("prefixed_unit_pow", "Unit"),
    ("unit_mul", "Unit"),
]
QUICK_ENUM = 5  # the quick tier enumerates the first five (one per class as target, plus constituents)
QUICK_LEAVES = 1200
MAX_SCHEDULE = 5000

W = None  # world
M = None  # measured module
TARGET = None
WINDOWS: Dict[Any, sched.Window] = {}
NS: Dict[str, Any] = {}
_COUNTER = itertools.count(0)
_LAST: Dict[str, Any] = {}
ENUM_STATS: List[dict] = []
COARSE = set()
PREEMPT_STATS: Dict[str, int] = {}


def setup(tier):
    global W, M, TARGET
    if M is not None:
        return
    W = shared_world()
    m = W.m
    si = W.modules.get("si") or W.load("si")
    for cls_name in CLASSES:
        try:
            win = sched.find_window(getattr(m, cls_name))
        except sched.HarnessDeadlock:
            # the interning code does not have the recognisable check-then-insert shape (it was
            # refactored): fall back to the whole __new__ body as the window; the window-mode
            # enumeration is then skipped for this class and the preemption-bounded enumeration
            # (which does not depend on the source's shape) carries the exhaustive part
            win = sched.coarse_window(getattr(m, cls_name))
            COARSE.add(cls_name)
        WINDOWS[win.code] = win
    TARGET = next(iter(WINDOWS)).co_filename
    NS.update(
        Meter=si.Meter, Second=si.Second, Kilo=si.Kilo, Length=m.Length, Time=m.Time, Prefix=m.Prefix,
        Unit=m.Unit, Dimension=m.Dimension, IdentityPrefix=m.IdentityPrefix,
    )
    M = m


def budget(tier):
    if tier == "quick":
        return {"examples": 400, "shards": 1}
    return {"examples": 12000, "shards": 16}


# ---------------------------------------------------------------- cases


def _expand_runs(runs):
    out: List[int] = []
    for who, length in runs:
        out.extend([who] * length)
        if len(out) >= 400:
            break
    return out[:400]


def _schedules():
    def exact(elements):
        return st.integers(0, 400).flatmap(lambda k: st.lists(elements, min_size=k, max_size=k))

    uniform = exact(st.integers(0, 2))
    wide = exact(st.integers(0, 5))
    runs = st.lists(st.tuples(st.integers(0, 2), st.integers(1, 40)), min_size=0, max_size=60).map(_expand_runs)
    short_runs = st.lists(st.tuples(st.integers(0, 2), st.integers(1, 6)), min_size=0, max_size=120).map(_expand_runs)
    return st.one_of(uniform, wide, runs, short_runs)


def strategy(tier):
    kinds = st.sampled_from(KINDS2 + KINDS2 + KINDS3 + KINDS_NAMED + KINDS_NESTED)
    return st.builds(lambda k, s: {"kind": k, "schedule": s}, kinds, _schedules())


class Plan:
    """What one case runs and what it must observe (all computed without looking at the
    outcome of the concurrent part)."""

    def __init__(self, kind: str, n: int):
        g = NS
        Meter, Kilo, Length, Time, Prefix = g["Meter"], g["Kilo"], g["Length"], g["Time"], g["Prefix"]
        three = kind.endswith("3")
        base = kind[:-1] if three else kind
        self.kind, self.base, self.n = kind, base, n
        m = n + 1
        self.exprs: List[str] = []
        thunks: List[Callable[[], Any]] = []

        def add(text, fn):
            self.exprs.append(text)
            thunks.append(fn)

        self.unit_den = None  # ((prefix base, prefix exponent), {id(factor): exponent})
        self.rejects = set()  # thunks whose requested name/symbol is taken: ValueError expected
        self.later_only = []  # further spellings evaluated single-threaded after the run
        Unit, Dimension, IdentityPrefix = g["Unit"], g["Dimension"], g["IdentityPrefix"]
        self.prefix_key = None
        self.dim_key = None
        # operands are evaluated here, single-threaded: only the denoted object itself is a
        # first-time construction inside the threads
        if base == "unit_pow":
            self.target = "Unit"
            add(f"Meter**{n}", lambda: Meter**n)
            add(f"Meter**{n}", lambda: Meter**n)
            if three:
                add(f"Meter**{n}", lambda: Meter**n)
            self.unit_den = ((0, 0), {id(Meter): n})
            self.prefix_key = (0, 0)
            self.dim_key = tuple(e * n for e in Length.exponents)
        elif base == "unit_mul":
            self.target = "Unit"
            p = Meter ** (n - 1)
            add(f"Meter**{n-1}*Meter", lambda: p * Meter)
            add(f"Meter**{n}", lambda: Meter**n)
            if three:
                add(f"Meter*Meter**{n-1}", lambda: Meter * p)
            self.unit_den = ((0, 0), {id(Meter): n})
            self.prefix_key = (0, 0)
            self.dim_key = tuple(e * n for e in Length.exponents)
        elif base == "dim_div":
            self.target = "Dimension"
            a, b, c = Length**n, Time**m, Time**-m
            add(f"Length**{n}/Time**{m}", lambda: a / b)
            add(f"Length**{n}/Time**{m}", lambda: a / b)
            if three:
                add(f"Length**{n}*Time**{-m}", lambda: a * c)
            self.dim_key = tuple(x * n - y * m for x, y in zip(Length.exponents, Time.exponents))
        elif base == "prefix":
            self.target = "Prefix"
            a, b, c = Prefix(7, n - 1), Prefix(7, 1), Prefix(7, n + 1)
            add(f"Prefix(7,{n})", lambda: Prefix(7, n))
            add(f"Prefix(7,{n-1})*Prefix(7,1)", lambda: a * b)
            if three:
                add(f"Prefix(7,{n+1})/Prefix(7,1)", lambda: c / b)
            self.prefix_key = (7, n)
        elif base == "prefix_decimal":
            # a prefix whose exponent is a fractional Decimal of many digits, evaluated by threads
            # whose decimal contexts differ (the context is per thread: one works to 6 digits, one
            # to 3, one with the default): what a prefix IS does not depend on the caller's context
            import decimal

            self.target = "Prefix"
            D = decimal.Decimal(n) + decimal.Decimal("0.7182818284")

            def under(prec):
                def thunk():
                    with decimal.localcontext() as ctx:
                        ctx.prec = prec
                        return Prefix(11, D)
                return thunk

            add(f"Prefix(11,Decimal('{D}'))", lambda: Prefix(11, D))
            add(f"Prefix(11,Decimal('{D}')) under prec=6", under(6))
            if three:
                add(f"Prefix(11,Decimal('{D}')) under prec=3", under(3))
            self.prefix_key = (11, D)  # a base of its own: whatever a broken tree makes of D cannot pre-empt another case's fresh (7, n)
        elif base == "prefixed_unit_pow":
            self.target = "Unit"
            km = Kilo * Meter
            add(f"(Kilo*Meter)**{n}", lambda: km**n)
            add(f"(Kilo*Meter)**{n}", lambda: km**n)
            if three:
                add(f"Kilo**{n}*Meter**{n}", lambda: Kilo**n * Meter**n)
            self.unit_den = ((10, 3 * n), {id(Meter): n})
            self.prefix_key = (10, 3 * n)
            self.dim_key = tuple(e * n for e in Length.exponents)
        elif base == "unit_pow_mul":
            self.target = "Unit"
            Second = g["Second"]
            add(f"Meter**{n}*Second", lambda: Meter**n * Second)
            add(f"Meter**{n}*Second", lambda: Meter**n * Second)
            if three:
                add(f"Second*Meter**{n}", lambda: Second * Meter**n)
            self.later_only = [(f"Second*Meter**{n}", lambda: Second * Meter**n), (f"(Meter**{n}/Second**-1)", lambda: Meter**n / Second**-1)]
            self.unit_den = ((0, 0), {id(Meter): n, id(Second): 1})
            self.prefix_key = (0, 0)
            self.dim_key = tuple(a_ * n + b_ for a_, b_ in zip(Length.exponents, Time.exponents))
        elif base == "unit_parsed":
            # the expression is a text: every thread parses it (Unit.parse goes through the one
            # parser object the library shares), a third one evaluates the same unit by arithmetic
            self.target = "Unit"
            Second = g["Second"]
            text = f"m^{n} s^-{n}"
            add(f"Unit.parse({text!r})", lambda: Unit.parse(text))
            add(f"Unit.parse({text!r})", lambda: Unit.parse(text))
            if three:
                add(f"Meter**{n}/Second**{n}", lambda: Meter**n / Second**n)
            self.later_only = [(f"Meter**{n}/Second**{n}", lambda: Meter**n / Second**n)]
            self.unit_den = ((0, 0), {id(Meter): n, id(Second): -n})
            self.prefix_key = (0, 0)
            self.dim_key = tuple(a_ * n - b_ * n for a_, b_ in zip(Length.exponents, Time.exponents))
        elif base == "two_defines":
            self.target = "Pair"
            add(f"Unit.define(Length,'vfa{n}')", lambda: Unit.define(Length, f"vfa{n}", f"vfa{n}"))
            add(f"Unit.define(Time,'vfb{n}')", lambda: Unit.define(Time, f"vfb{n}", f"vfb{n}"))
        elif base in ("prefix_named", "prefix_rejected"):
            self.target = "Prefix"
            a, b = Prefix(7, n - 1), Prefix(7, 1)
            name = f"vf{n}fold" if base == "prefix_named" else "kilo"
            add(f"Prefix(7,{n},name={name!r},symbol='Vf{n}')", lambda: Prefix(7, n, name=name, symbol=f"Vf{n}"))
            add(f"Prefix(7,{n-1})*Prefix(7,1)", lambda: a * b)
            if base == "prefix_rejected":
                self.rejects.add(0)
            self.prefix_key = (7, n)
        elif base in ("unit_named", "unit_rejected"):
            self.target = "Unit"
            dim = Length**n
            symbol = f"vfu{n}" if base == "unit_named" else "m"
            add(f"Unit(IdentityPrefix,{{Meter:{n}}},Length**{n},name='vfunit{n}',symbol={symbol!r})",
                lambda: Unit(IdentityPrefix, {Meter: n}, dim, name=f"vfunit{n}", symbol=symbol))
            add(f"Meter**{n}", lambda: Meter**n)
            if base == "unit_rejected":
                self.rejects.add(0)
            self.unit_den = ((0, 0), {id(Meter): n})
            self.prefix_key = (0, 0)
            self.dim_key = tuple(e * n for e in Length.exponents)
        elif base in ("dim_named", "dim_rejected"):
            self.target = "Dimension"
            a, b = Length**n, Time**m
            self.dim_key = tuple(x * n - y * m for x, y in zip(Length.exponents, Time.exponents))
            key = self.dim_key
            name = f"vfdim{n}" if base == "dim_named" else "length"
            add(f"Dimension({key},name={name!r},symbol='Vd{n}')", lambda: Dimension(key, name=name, symbol=f"Vd{n}"))
            add(f"Length**{n}/Time**{m}", lambda: a / b)
            if base == "dim_rejected":
                self.rejects.add(0)
        else:
            raise KeyError(kind)
        self.thunks = thunks


def _fresh_n() -> int:
    # spaced so that n-1, n, n+1 of different cases never meet
    return 1000 + 8 * next(_COUNTER)


# ---------------------------------------------------------------- oracle helpers


def _unit_den(u):
    try:
        return ((u.prefix.base, u.prefix.exponent), {id(f): e for f, e in u.factors.items()})
    except Exception:
        return None


def _uniq(objs):
    seen, out = set(), []
    for o in objs:
        if id(o) not in seen:
            seen.add(id(o))
            out.append(o)
    return out


def _roles(pairs) -> str:
    ids: Dict[int, int] = {}
    parts = []
    for role, o in pairs:
        k = ids.setdefault(id(o), len(ids))
        parts.append(f"{role}=#{k}")
    return " ".join(parts)


def _bucket(cls_name: str) -> str:
    return f"C20:{cls_name}.__new__"


def _judge(plan: Plan, observed: List[Tuple[str, Any]], new_entries: Dict[str, list], out: core.Outcome) -> None:
    """observed: (role, object) for thread results and later evaluations (exceptions removed)."""
    m = M
    failed: Dict[str, List[str]] = {}

    def fail(cls_name, text):
        failed.setdefault(cls_name, []).append(text)

    if plan.target == "Dimension":
        for role, o in observed:
            if not isinstance(o, m.Dimension) or tuple(getattr(o, "exponents", ())) != plan.dim_key:
                out.fail(f"C20:wrong-value:{plan.base}", f"{role} is {o!r}, expected the dimension with exponents {plan.dim_key}")
                return
        table = m.Dimension._known.get(plan.dim_key)
        pairs = observed + [("table", table)]
        if len(_uniq(o for _r, o in pairs)) > 1:
            fail("Dimension", f"exponents {plan.dim_key}: {_roles(pairs)} (different objects denote one dimension)")
    elif plan.target == "Prefix":
        for role, o in observed:
            if not isinstance(o, m.Prefix) or (getattr(o, "base", None), getattr(o, "exponent", None)) != plan.prefix_key:
                out.fail(f"C20:wrong-value:{plan.base}", f"{role} is {o!r}, expected the prefix {plan.prefix_key}")
                return
        table = m.Prefix._known.get(plan.prefix_key)
        pairs = observed + [("table", table)]
        if len(_uniq(o for _r, o in pairs)) > 1:
            fail("Prefix", f"prefix {plan.prefix_key}: {_roles(pairs)} (different objects denote one prefix)")
    else:
        for role, o in observed:
            if not isinstance(o, m.Unit) or _unit_den(o) != plan.unit_den:
                out.fail(f"C20:wrong-value:{plan.base}", f"{role} is {o!r}, expected prefix {plan.unit_den[0]} x Meter^{plan.n}")
                return
        entries = [u for u in new_entries["Unit"] if _unit_den(u) == plan.unit_den]
        pairs = observed + [(f"table[{i}]", u) for i, u in enumerate(entries)]
        units = _uniq(o for _r, o in pairs)
        prefixes = _uniq(u.prefix for u in units)
        dims = _uniq(u.dimension for u in units)
        if len(units) > 1 or len(entries) != 1:
            what = f"{plan.exprs[0]}: {_roles(pairs)}; {len(entries)} table entr{'y' if len(entries) == 1 else 'ies'} denote it"
            if len(prefixes) > 1:
                # the unit key contains the prefix *object*: two prefix objects for one prefix
                # make two unit keys, whatever Unit.__new__ does
                fail("Prefix", what + f"; their prefixes are {len(prefixes)} different objects for {plan.prefix_key}, so the unit keys differ")
            else:
                fail("Unit", what + " (same prefix object, same factors: one key, several objects)")
        ptable = m.Prefix._known.get(plan.prefix_key)
        if len(_uniq(prefixes + [ptable])) > 1:
            fail("Prefix", f"prefix {plan.prefix_key} constructed inside {plan.exprs[0]}: " + _roles([(f"unit#{i}.prefix", p) for i, p in enumerate(prefixes)] + [("table", ptable)]))
        dtable = m.Dimension._known.get(plan.dim_key)
        if len(_uniq(dims + [dtable])) > 1:
            fail("Dimension", f"dimension {plan.dim_key} constructed inside {plan.exprs[0]}: " + _roles([(f"unit#{i}.dimension", d) for i, d in enumerate(dims)] + [("table", dtable)]))
    for cls_name in CLASSES:
        if cls_name in failed:
            out.fail(_bucket(cls_name), " | ".join(_uniq_text(failed[cls_name])))


def _judge_pair(plan, results, raised, out):
    """two different new base units, defined concurrently: afterwards their product is one object
    however it is written"""
    m = M
    if any(raised) or len(results) != 2 or not all(isinstance(r, m.Unit) for r in results):
        return  # a raising thread has been reported already
    a, b = results
    if a is b:
        out.fail("C20:wrong-value:two_defines", f"two different definitions returned one object {a!r}")
        return
    try:
        forms = [("a*b", a * b), ("b*a", b * a), ("(a**2*b)/a", (a**2 * b) / a), ("b/a**-1", b / a**-1)]
    except Exception as e:  # noqa
        out.fail(f"C20:raised-later:{type(e).__name__}@{core.innermost_frame(e)}", f"products of the two units defined concurrently raised {type(e).__name__}: {e}")
        return
    if len(_uniq(o for _t, o in forms)) > 1:
        out.fail(_bucket("Unit"), f"{plan.exprs[0]} || {plan.exprs[1]}: " + _roles(forms) + " (one product, several objects)")
    entries = [u for u in m.Unit._known.values() if _unit_den(u) == ((0, 0), {id(a): 1, id(b): 1})]
    if len(entries) != 1:
        out.fail(_bucket("Unit"), f"{plan.exprs[0]} || {plan.exprs[1]}: {len(entries)} registry entries denote a*b")


def _uniq_text(texts):
    out = []
    for t in texts:
        if t not in out:
            out.append(t)
    return out


# ---------------------------------------------------------------- the check


def _valid(case) -> Optional[Tuple[str, List[int], str, Optional[List[str]]]]:
    if not isinstance(case, dict):
        return None
    kind = case.get("kind")
    schedule = case.get("schedule")
    mode = case.get("mode", "line")
    focus = case.get("focus")
    if kind not in KINDS or mode not in ("line", "window"):
        return None
    if not isinstance(schedule, list) or len(schedule) > MAX_SCHEDULE:
        return None
    if any(isinstance(c, bool) or not isinstance(c, int) or abs(c) > 2**31 for c in schedule):
        return None
    if focus is not None:
        if not isinstance(focus, list) or any(f not in CLASSES for f in focus):
            return None
    if mode == "window" and not focus:
        return None
    return kind, schedule, mode, focus


def run_case(case) -> core.Outcome:
    out = core.Outcome()
    v = _valid(case)
    if v is None:
        out.invalid = True
        return out
    if M is None:
        setup("quick")
    kind, schedule, mode, focus = v
    m = M
    plan = Plan(kind, _fresh_n())
    tables = {c: getattr(m, c)._known for c in CLASSES}
    before = {c: len(t) for c, t in tables.items()}
    # freshness is a precondition of the case, established before the run
    if plan.target == "Dimension" and plan.dim_key in tables["Dimension"]:
        raise AssertionError(f"harness: dimension {plan.dim_key} is not fresh")
    if plan.target == "Prefix" and plan.prefix_key in tables["Prefix"]:
        raise AssertionError(f"harness: prefix {plan.prefix_key} is not fresh")
    if plan.target == "Unit" and plan.base not in ("unit_pow_mul", "unit_parsed"):
        p = tables["Prefix"].get(plan.prefix_key)
        if p is not None and ((p, ((NS["Meter"], plan.n),)) in tables["Unit"]):
            raise AssertionError(f"harness: unit {plan.exprs[0]} is not fresh")

    s = sched.Scheduler(plan.thunks, schedule, TARGET, WINDOWS, mode=mode, focus=focus)
    results = s.run()  # HarnessDeadlock propagates: exit 2, never a violation
    _LAST.clear()
    _LAST.update(case=core.canon(case), decisions=list(s.decisions))

    observed: List[Tuple[str, Any]] = []
    for i, r in enumerate(results):
        if s.raised[i] and i in plan.rejects and isinstance(r, ValueError):
            out.classes.append("rejected-naming")
        elif s.raised[i]:
            out.fail(
                f"C20:raised:{type(r).__name__}@{core.innermost_frame(r)}",
                f"thread {i} evaluating {plan.exprs[i]} raised {type(r).__name__}: {r}",
            )
        else:
            observed.append((f"t{i}", r))
    done_exprs = set()
    for i, th in enumerate(plan.thunks):
        if plan.exprs[i] in done_exprs or plan.target == "Pair":  # a definition is made once
            continue
        done_exprs.add(plan.exprs[i])
        try:
            observed.append((f"later({plan.exprs[i]})", th()))
        except Exception as e:  # noqa
            if i in plan.rejects and isinstance(e, ValueError):
                continue
            out.fail(
                f"C20:raised-later:{type(e).__name__}@{core.innermost_frame(e)}",
                f"single-threaded evaluation of {plan.exprs[i]} after the run raised {type(e).__name__}: {e}",
            )
    for text, th in plan.later_only:
        try:
            observed.append((f"later({text})", th()))
        except Exception as e:  # noqa
            out.fail(f"C20:raised-later:{type(e).__name__}@{core.innermost_frame(e)}", f"single-threaded evaluation of {text} after the run raised {type(e).__name__}: {e}")
    new_entries = {c: [val for _k, val in itertools.islice(tables[c].items(), before[c], None)] for c in CLASSES}
    if plan.target == "Pair":
        _judge_pair(plan, results, s.raised, out)
    else:
        _judge(plan, observed, new_entries, out)

    out.classes.append(kind)
    out.classes.append(f"mode:{mode}")
    out.classes.append(f"threads:{len(plan.thunks)}")
    if s.window_switches:
        for c in sorted(s.window_switches):
            out.classes.append(f"switch-inside:{c}.__new__")
        for c in sorted(s.entered):
            if s.entered[c] >= 2:
                out.classes.append(f"several-threads-past-test:{c}.__new__")
        h = hashlib.sha1(repr(s.trace).encode()).hexdigest()[:16]
        out.nontrivial = f"{kind}|{h}"
        out.sample = {
            "kind": kind,
            "exprs": plan.exprs,
            "mode": mode,
            "schedule_len": len(schedule),
            "steps": s.steps,
            "switches_inside_window": dict(sorted(s.window_switches.items())),
            "interleaving_head": " ".join(f"{t}:{q.split('.')[0][0]}.{q.split('.')[-1]}:{ln}" for t, q, ln in s.trace[:24]),
        }
    else:
        out.classes.append("no-switch-inside-window")
    return out


def still_fails(case, bucket):
    # run_case draws a new fresh exponent from the counter on every call, so re-running a case
    # re-creates the race on new objects instead of finding the old ones interned
    return any(f.bucket == bucket for f in run_case(case).failures)


# ---------------------------------------------------------------- exhaustive sub-space


def enumerate_cases(tier):
    """All interleavings of the window lines of two threads' racing __new__ calls (other lines
    run without a switch), for every (kind, focus class) of ENUM: a depth-first walk of the
    decision tree, whose shape is discovered by running (the path through __new__ depends on
    who inserted first)."""
    setup(tier)
    del ENUM_STATS[:]
    # ---- preemption-bounded enumeration (independent of the shape of the source): thread 0
    # runs k traced lines, then thread 1 runs to completion, then thread 0 finishes -- for
    # every k up to the length of the thunk, and with the roles swapped; in the thorough tier
    # also every (k1, k2) two-preemption schedule
    PREEMPT_STATS.clear()
    for kind in KINDS2 + KINDS_NAMED + ["unit_pow_mul", "two_defines", "unit_parsed"]:
        probe = {"kind": kind, "schedule": [0] * 600, "mode": "line"}
        yield probe
        if _LAST.get("case") != core.canon(probe):
            run_case(probe)
        length = min(len(_LAST.get("decisions") or []) or 80, 160)
        n = 0
        for first in (0, 1):
            for k in range(0, length + 1):
                yield {"kind": kind, "schedule": [first] * k + [1 - first] * 600, "mode": "line"}
                n += 1
        if tier == "thorough" and kind in KINDS2:
            for k1 in range(1, min(length, 60), 2):
                for k2 in range(1, min(length, 60), 2):
                    yield {"kind": kind, "schedule": [0] * k1 + [1] * k2 + [0] * 600, "mode": "line"}
                    n += 1
        if kind == "unit_pow_mul":
            # a one-line visit: thread 0 runs k1 lines, thread 1 runs k2 lines, thread 0 runs ONE
            # line, thread 1 finishes, thread 0 finishes -- a transient state that lasts a single
            # line of one thread is seen by the other only under such a schedule
            stride = 6 if tier == "quick" else 1
            for k1 in range(1, length + 1):
                for k2 in range(1 + k1 % stride, length + 1, stride):
                    yield {"kind": kind, "schedule": [0] * k1 + [1] * k2 + [0] + [1] * 600, "mode": "line"}
                    n += 1
        PREEMPT_STATS[kind] = n
    for kind, focus in (ENUM[:QUICK_ENUM] if tier == "quick" else ENUM):
        if focus in COARSE:
            ENUM_STATS.append({"kind": kind, "focus": f"{focus}.__new__", "window": None, "interleavings": 0, "complete": False,
                               "capped_at": None, "skipped": "check-then-insert shape not recognised in the source"})
            continue
        tree = sched.ScheduleTree(limit=200000)
        # the quick tier walks at most QUICK_LEAVES leaves of each tree (depth-first order);
        # the thorough tier always completes the enumeration
        cap = QUICK_LEAVES if tier == "quick" else None
        stat = {"kind": kind, "focus": f"{focus}.__new__", "window": None, "interleavings": 0, "complete": False, "capped_at": None}
        for w in WINDOWS.values():
            if w.cls_name == focus:
                stat["window"] = w.describe()
        ENUM_STATS.append(stat)
        prefix = tree.first()
        while prefix is not None:
            case = {"kind": kind, "schedule": prefix, "mode": "window", "focus": [focus]}
            yield case
            if _LAST.get("case") != core.canon(case):  # the consumer did not run it (yet)
                run_case(case)
            prefix = tree.next(_LAST["decisions"])
            stat["interleavings"] = tree.leaves
            if cap is not None and tree.leaves >= cap and prefix is not None:
                stat["capped_at"] = cap
                break
        stat["complete"] = tree.complete


def post(tier, col):
    col.extra["exhaustive_subspaces"] = [dict(s) for s in ENUM_STATS]
    col.extra["preemption_bounded_schedules"] = dict(PREEMPT_STATS)
    col.extra["windows_not_recognised"] = sorted(COARSE)
    col.extra["exhaustive_subspace_rule"] = (
        "two threads; decision points = thread start and every line from the membership test to the "
        "insertion (inclusive) of the focus class's __new__; all other lines run without a switch; "
        "every leaf of the resulting decision tree executed once"
    )
    col.extra["windows"] = [w.describe() for w in sorted(WINDOWS.values(), key=lambda w: w.cls_name)]


def vacuity(col):
    missing = []
    for c in CLASSES:
        if not col.classes.get(f"switch-inside:{c}.__new__"):
            missing.append(f"no schedule switched threads inside {c}.__new__'s check-then-insert window")
    for s in ENUM_STATS:
        if not s["complete"] and not s.get("capped_at") and not s.get("skipped"):
            missing.append(f"exhaustive enumeration of {s['kind']}/{s['focus']} did not complete")
    if not ENUM_STATS:
        missing.append("exhaustive enumeration did not run")
    return missing
