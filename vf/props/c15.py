"""C15 -- pickle, copy and JSON round-trip every value, preserving singleton identity."""
from __future__ import annotations

import copy
import json
import math
import pickle
from decimal import Decimal

from hypothesis import strategies as st

from .. import convgen, core

ID = "C15"
RULE = (
    "Exhaustive: every registered dimension, prefix and named unit through pickle (protocols 2-5), copy, "
    "deepcopy, MeasuredJSONEncoder/Decoder, codecs_installed() and a pydantic model field. Hypothesis: "
    "compound/prefixed units (1-3 terms, the C13 space) and quantities over them with int (incl. huge), float "
    "(incl. +-inf, tiny, huge) and Decimal (incl. 40-digit) magnitudes through the same codecs plus "
    "Quantity(*q.__composite_values__()). Oracle: round trip -- identity and unchanged names/symbols for the "
    "interned classes; equality, same magnitude type and (pickle/copy) identical unit object for quantities; "
    "name/symbol registries unchanged by decoding. Non-trivial: prefixed derived unit, compound denominator or "
    "Decimal magnitude; distinct = (codec, canonical unit, magnitude type)."
)
ASSUMPTIONS = [
    "pickle protocols 0 and 1 are outside the domain: Python itself refuses them for classes with __slots__ and no __getstate__",
    "float magnitudes are compared with == (JSON and pickle preserve doubles exactly); NaN is not generated",
]

C = None
PYD = None
TAINTED = set()
FACTOR_LABELS = {}


def setup(tier):
    global C, PYD
    if C is not None:
        return
    C = convgen.ctx()
    C.all_units = dict(C.snap.units)
    try:
        import pydantic

        m = C.m

        PYD = {}
        for field, typ in (("unit", m.Unit), ("quantity", m.Quantity), ("prefix", m.Prefix), ("dimension", m.Dimension)):
            PYD[field] = pydantic.create_model("Holder_" + field, value=(typ, ...))
    except Exception:  # noqa
        PYD = None


def budget(tier):
    return {"examples": 1200, "shards": 1} if tier == "quick" else {"examples": 10000, "shards": 16}


def enumerate_cases(tier):
    m = C.m
    out = []
    for i, _ in enumerate(sorted(m.Dimension._known.values(), key=lambda d: d.exponents)):
        out.append({"k": "dimension", "i": i})
    for i, _ in enumerate(sorted(m.Prefix._known.values(), key=lambda p: (p.base, float(p.exponent)))):
        out.append({"k": "prefix", "i": i})
    for name in sorted(m.Unit._by_name):
        out.append({"k": "named-unit", "name": name})
    # prefixes produced by mixed-base cancellations, (a*b)/c and (a/b)*c over all registered
    # prefixes (exhaustive; distinct results only): some are an ulp away from a whole exponent
    out.append({"k": "prefix-triples"})
    # documents written in one process and read in another: compound units that the reading
    # world has never built, and a world that defines a new fundamental dimension in between
    names = sorted(n for n in C.all_units if n in C.units)
    for i in range(24 if tier == "quick" else 200):
        a, b, c3 = names[(7 * i) % len(names)], names[(13 * i + 5) % len(names)], names[(29 * i + 11) % len(names)]
        out.append({"k": "cross-world", "terms": [["", a, 2 - (i % 2) * 3], ["kilo" if i % 3 == 0 else "", b, -1], ["", c3, 1 + i % 2]]})
    out.append({"k": "after-define"})
    out.append({"k": "stale-document"})
    out.append({"k": "long-lived-decoder"})
    out.append({"k": "cross-world-names"})
    return out


def strategy(tier):
    c = C
    P = st.sampled_from([""] * 3 + c.prefixes)
    U = st.sampled_from(sorted(c.all_units))
    E = st.sampled_from([1, 1, 2, 3, -1, -2, -3])
    terms = st.lists(st.tuples(P, U, E).map(list), min_size=1, max_size=3)
    MAG = st.one_of(
        st.builds(lambda v: {"t": "int", "v": v}, st.one_of(st.integers(-1000, 1000), st.sampled_from([0, 10**30, -(10**25), 2**64 + 1]))),
        st.builds(lambda v: {"t": "float", "v": v}, st.one_of(st.sampled_from([0.0, -0.0, 1.5, 1e-300, 1e300, 0.1, 2.5e-7]), st.floats(allow_nan=False, allow_infinity=False))),
        st.builds(lambda v: {"t": "float", "v": v}, st.sampled_from(["inf", "-inf"])),
        st.builds(lambda v: {"t": "dec", "v": v}, st.sampled_from(["1.10", "0.000", "299792.458", "-12345678901234567890.12345678901234567890", "1E+40", "7"])),
        st.builds(lambda v: {"t": "dec", "v": str(v)}, st.decimals(allow_nan=False, allow_infinity=False, places=8, min_value=-10**6, max_value=10**6)),
    )
    return st.builds(lambda t, mg: {"k": "compound", "terms": t, "mag": mg}, terms, MAG)


def _mag(spec):
    t, v = spec["t"], spec["v"]
    if t == "int":
        if isinstance(v, bool) or not isinstance(v, int):
            raise ValueError
        return v
    if t == "float":
        v = float(v)
        if v != v:
            raise ValueError
        return v
    if t == "dec":
        d = Decimal(v)
        if not d.is_finite():
            raise ValueError
        return d
    raise ValueError


def _registry(m):
    return (
        {k: id(v) for k, v in m.Unit._by_name.items()}, {k: id(v) for k, v in m.Unit._by_symbol.items()},
        {k: id(v) for k, v in m.Prefix._by_name.items()}, {k: id(v) for k, v in m.Prefix._by_symbol.items()},
        {k: id(v) for k, v in m.Dimension._by_name.items()},
    )


def _labels(x, m):
    if isinstance(x, m.Unit):
        return (tuple(x.names), tuple(x.symbols))
    if isinstance(x, (m.Prefix, m.Dimension)):
        return (x.name, x.symbol)
    return None


JSON_CODECS = ("json", "json-installed", "json-installed-file", "json-install-uninstall", "json-nested", "pydantic", "composite")


def _codecs(m, jsonmod, kind):
    enc, dec = jsonmod.MeasuredJSONEncoder, jsonmod.MeasuredJSONDecoder

    def installed(x):
        with jsonmod.codecs_installed():
            return json.loads(json.dumps(x))

    def installed_file(x):
        # the file API of the standard module (json.dump / json.load) under the installed codecs
        import io
        with jsonmod.codecs_installed():
            doc = io.StringIO()
            json.dump({"v": [x]}, doc)
            doc.seek(0)
            return json.load(doc)["v"][0]

    def installed_global(x):
        # install() / uninstall() instead of the context manager; decoding of bytes
        jsonmod.install()
        try:
            return json.loads(json.dumps(x).encode("utf-8"))
        finally:
            jsonmod.uninstall()

    codecs = [(f"pickle{p}", lambda x, p=p: pickle.loads(pickle.dumps(x, protocol=p))) for p in (2, 3, 4, 5)]
    codecs += [
        ("copy", copy.copy),
        ("deepcopy", copy.deepcopy),
        ("json", lambda x: json.loads(json.dumps(x, cls=enc), cls=dec)),
        ("json-installed", installed),
        ("json-installed-file", installed_file),
        ("json-install-uninstall", installed_global),
        ("json-nested", lambda x: json.loads(json.dumps({"a": [x, {"b": x}]}, cls=enc), cls=dec)["a"][1]["b"]),
    ]
    if PYD is not None:
        model = PYD[kind]

        def pyd(x):
            return model.model_validate_json(model(value=x).model_dump_json()).value

        codecs.append(("pydantic", pyd))
    return codecs


def _shape(c, x):
    """independent description of what str(unit) looks like (same prediction as C13):
    symbol | pushed | symbol-less | folded, or collision:<prefix>+<unit> when the spelled
    prefix+symbol is another unit's symbol"""
    from . import c13

    if not hasattr(c, "usym"):
        c13.setup("quick")
    branch = c13._expect_render(c, x)
    key = c13.collision_key(c, x, branch)
    return f"collision:{key}" if key else branch


def run_case(case) -> core.Outcome:
    out = core.Outcome()
    c = convgen.ctx()
    m = c.m
    jsonmod = c.w.load("json")
    if isinstance(case, dict) and case.get("k") in ("prefix-triples", "cross-world", "after-define", "stale-document", "long-lived-decoder", "cross-world-names"):
        try:
            {"prefix-triples": _run_prefix_triples, "cross-world": _run_cross_world, "after-define": _run_after_define,
             "stale-document": _run_stale_document, "long-lived-decoder": _run_long_lived_decoder, "cross-world-names": _run_cross_world_names}[case["k"]](c, case, out)
        finally:
            convgen.ctx()  # the shared world is the active one again
        return out
    try:
        kind = case["k"]
        if kind == "dimension":
            x = sorted(m.Dimension._known.values(), key=lambda d: d.exponents)[case["i"]]
            objs = [("dimension", x)]
        elif kind == "prefix":
            x = sorted(m.Prefix._known.values(), key=lambda p: (p.base, float(p.exponent)))[case["i"]]
            objs = [("prefix", x)]
        elif kind == "named-unit":
            x = m.Unit._by_name[case["name"]]
            objs = [("unit", x), ("quantity", m.Quantity(3, x)), ("quantity", m.Quantity(Decimal("1.50"), x))]
            # whole numbers beyond 2**53 as int and as Decimal (with and without an exponent), and
            # Decimals with more digits than the default context keeps
            extra = [2**53 + 1, -(10**30), Decimal("9007199254740993"), Decimal(10**30), Decimal("1E+30"), Decimal("-123456789012345678901234567890.123456789"), Decimal("5"), 1e22]
            k = sum(map(ord, case["name"]))
            objs += [("quantity", m.Quantity(extra[(k + i) % len(extra)], x)) for i in range(3)]
        elif kind == "compound":
            terms = case["terms"]
            if not isinstance(terms, list) or not terms:
                raise ValueError
            x = m.One
            for p, u, e in terms:
                if p not in c.snap.prefixes or u not in c.all_units or isinstance(e, bool) or not isinstance(e, int) or e == 0 or abs(e) > 3:
                    raise ValueError
                x = x * (c.snap.prefixes[p] * c.all_units[u]) ** e
            objs = [("unit", x), ("quantity", m.Quantity(_mag(case["mag"]), x))]
        else:
            raise ValueError
    except Exception:
        out.invalid = True
        return out

    for okind, obj in objs:
        tid = id(obj.unit) if okind == "quantity" else id(obj)
        u_ = obj.unit if okind == "quantity" else (obj if okind == "unit" else None)
        if tid in TAINTED or (u_ is not None and any(id(f) in TAINTED for f in u_.factors)):
            # a codec already changed this interned object; exercising it again would only
            # compound the damage (and the run time)
            out.classes.append("skipped:tainted-object")
            continue
        unit = obj if okind == "unit" else (obj.unit if okind == "quantity" else None)
        base_unit = unit is not None and len(unit.factors) == 1 and next(iter(unit.factors)) is unit
        shape = _shape(c, unit) if unit is not None else "-"
        codecs = _codecs(m, jsonmod, okind)
        if okind == "quantity":
            codecs.append(("composite", lambda q: m.Quantity(*q.__composite_values__())))
        for cname, fn in codecs:
            if len(out.failures) >= 4:
                break
            if cname == "pydantic" and okind == "quantity" and isinstance(obj.magnitude, float) and math.isinf(obj.magnitude):
                continue  # pydantic's own JSON mode writes non-finite floats as null by default
            before = _registry(m)
            stop = False
            labels = _labels(obj, m)
            ulabels = _labels(obj.unit, m) if okind == "quantity" else None
            try:
                back = fn(obj)
            except Exception as e:  # noqa
                where = f"{okind}:{cname}"
                if okind == "quantity" and cname in JSON_CODECS and (shape in ("symbol-less", "folded") or shape.startswith("collision:")):
                    out.fail(f"C15:quantity-unit-string:{shape}", f"{cname} of {obj!r}: the unit travels as str(unit) = {_safe_str(unit)}, which does not parse back ({type(e).__name__})")
                elif okind == "unit" and cname == "pydantic" and not base_unit:
                    out.fail("C15:pydantic:unit-field:nested-units", f"pydantic dump/validate of Unit field {obj!r} raised {type(e).__name__}: {str(e)[:160]}")
                else:
                    out.fail(f"C15:raises:{where}:{type(e).__name__}@{core.innermost_frame(e)}", f"{cname} round trip of {obj!r} raised {type(e).__name__}: {str(e)[:200]}")
                continue
            after = _registry(m)
            if u_ is not None:
                for f_ in u_.factors:
                    if f_ is not u_ and FACTOR_LABELS.setdefault(id(f_), _labels(f_, m)) != _labels(f_, m):
                        TAINTED.add(id(f_))
                        stop = True
                        out.fail(f"C15:labels:factor-unit:{cname}", f"{cname} round trip of {obj!r} changed the names/symbols of its factor {f_!r}: {FACTOR_LABELS[id(f_)]} -> {_labels(f_, m)}")
            if okind == "quantity" and _labels(obj.unit, m) != ulabels:
                TAINTED.add(id(obj.unit))
                out.fail(f"C15:labels:unit-of-quantity:{cname}", f"{cname} round trip of {obj!r} changed the unit's names/symbols {ulabels} -> {_labels(obj.unit, m)}")
                break
            if after != before:
                out.fail(f"C15:registry-changed:{okind}:{cname}", f"{cname} round trip of {obj!r} changed the name/symbol registries")
            if okind != "quantity":
                if back is not obj:
                    out.fail(f"C15:identity:{okind}:{cname}", f"{cname} round trip of {obj!r} returned a different object {back!r}")
                elif _labels(back, m) != labels:
                    TAINTED.add(id(obj))
                    stop = True
                    out.fail(f"C15:labels:{okind}:{cname}", f"{cname} round trip of {obj!r} changed names/symbols {labels} -> {_labels(back, m)}")
            else:
                if not isinstance(back, m.Quantity):
                    out.fail(f"C15:quantity:type:{cname}", f"{cname} round trip of {obj!r} returned {type(back).__name__}")
                    continue
                eq = False
                try:
                    eq = bool(back == obj)
                except Exception:
                    pass
                if not eq and back.unit is not obj.unit and _equal_value(c, back, obj):
                    eq = True  # e.g. the documented kg mapping: an equal named unit, equal up to float rounding
                if not eq and not (isinstance(obj.magnitude, float) and math.isinf(obj.magnitude) and back.magnitude == obj.magnitude and back.unit is obj.unit):
                    if cname in JSON_CODECS and back.unit is not obj.unit and (shape in ("symbol-less", "folded") or shape.startswith("collision:")):
                        out.fail(f"C15:quantity-unit-string:{shape}", f"{cname} of {obj!r} came back as {back!r}")
                    elif back.unit is not obj.unit and not _equal_value(c, back, obj):
                        out.fail(f"C15:quantity:value:{cname}:{shape}", f"{cname} round trip of {obj!r} returned {back!r}, which is not equal")
                    elif back.unit is obj.unit:
                        out.fail(f"C15:quantity:value:{cname}", f"{cname} round trip of {obj!r} returned {back!r}, which is not equal")
                if type(back.magnitude) is not type(obj.magnitude):
                    out.fail(f"C15:quantity:magnitude-type:{cname}", f"{cname} round trip of {obj!r}: magnitude type {type(obj.magnitude).__name__} -> {type(back.magnitude).__name__}")
                if cname.startswith("pickle") or cname in ("copy", "deepcopy"):
                    if back.unit is not obj.unit:
                        out.fail(f"C15:quantity:unit-identity:{cname}", f"{cname} round trip of {obj!r} has another unit object")
                    if isinstance(obj.magnitude, Decimal) and (back.magnitude != obj.magnitude or str(back.magnitude) != str(obj.magnitude)):
                        out.fail(f"C15:quantity:decimal-digits:{cname}", f"{cname} round trip of {obj!r}: {obj.magnitude!r} -> {back.magnitude!r}")
                elif isinstance(obj.magnitude, Decimal) and isinstance(back.magnitude, Decimal) and back.unit is obj.unit and back.magnitude != obj.magnitude:
                    out.fail(f"C15:quantity:decimal-digits:{cname}", f"{cname} round trip of {obj!r}: {obj.magnitude!r} -> {back.magnitude!r}")
            out.classes.append(f"{okind}:{cname}")
            if stop:
                break
    if kind == "compound":
        mt = case["mag"]["t"]
        if any(p for p, _, _ in case["terms"]) or any(e < 0 for _, _, e in case["terms"]) or mt == "dec":
            out.nontrivial = f"{convgen.terms_str(case['terms'])}|{mt}"
            out.sample = {"unit": convgen.terms_str(case["terms"]), "magnitude": case["mag"]}
    else:
        out.nontrivial = f"{kind}|{case.get('i', case.get('name'))}"
    return out


def _run_prefix_triples(c, case, out):
    m = c.m
    jsonmod = c.w.load("json")
    enc, dec = jsonmod.MeasuredJSONEncoder, jsonmod.MeasuredJSONDecoder
    named = [c.snap.prefixes[n] for n in sorted(c.snap.prefixes) if n]
    seen = {}
    for a in named:
        for b in named:
            ab, aob = a * b, a / b
            for c3 in named:
                for p in (ab / c3, aob * c3):
                    seen.setdefault(id(p), p)
    meter = c.units["meter"]
    n = 0
    for p in seen.values():
        n += 1
        for cname, fn in (("json", lambda x: json.loads(json.dumps(x, cls=enc), cls=dec)), ("pickle", lambda x: pickle.loads(pickle.dumps(x))), ("deepcopy", copy.deepcopy)):
            for obj, kind in ((p, "prefix"), (p * meter, "unit")):
                try:
                    back = fn(obj)
                except Exception as e:  # noqa
                    out.fail(f"C15:raises:{kind}:{cname}:{type(e).__name__}@{core.innermost_frame(e)}", f"{cname} round trip of {obj!r} raised {type(e).__name__}: {e}")
                    continue
                if back is not obj:
                    out.fail(f"C15:identity:{kind}:{cname}", f"{cname} round trip of {obj!r} (from prefix arithmetic (a*b)/c) returned a different object {back!r}")
        if len(out.failures) > 20:
            break
    out.classes.append("prefix-triples:checked")
    out.nontrivial = "prefix-triples"
    out.sample = {"distinct_prefixes_from_triples": n}


MODS = ["si", "us", "energy", "astronomical", "metric", "iec"]


def _model_dim(c, terms):
    return c.snap.model_dim(c.snap.model_terms([t for t in terms]))


def _run_cross_world(c, case, out):
    """encode a compound unit in the shared world, decode the documents in a fresh world that
    has never built it; the decoded unit must have the dimension of its factors and be the
    object that ordinary arithmetic yields afterwards"""
    from .. import model
    from ..world import World

    try:
        terms = case["terms"]
        for p, u, e in terms:
            if p not in c.snap.prefixes or u not in c.units or not isinstance(e, int) or isinstance(e, bool) or e == 0 or abs(e) > 3:
                raise ValueError
    except Exception:
        out.invalid = True
        return
    m = c.m
    jsonmod = c.w.load("json")
    x = c.snap.build_terms(terms)
    want_dim = tuple(x.dimension.exponents) if tuple(x.dimension.exponents) == _model_dim(c, terms) else _model_dim(c, terms)
    docs = {"json": json.dumps(x, cls=jsonmod.MeasuredJSONEncoder), "json-quantity": json.dumps(m.Quantity(3, x), cls=jsonmod.MeasuredJSONEncoder)}
    blobs = {"pickle": pickle.dumps(x), "pickle-quantity": pickle.dumps(m.Quantity(3, x))}
    shape = _shape(c, x)
    for codec in ("json", "json-quantity", "pickle", "pickle-quantity"):
        w2 = World(["measured.systems", "geometry", "physics"])
        m2 = w2.m
        j2 = w2.load("json")
        try:
            if codec.startswith("json"):
                back = json.loads(docs[codec], cls=j2.MeasuredJSONDecoder)
            else:
                back = pickle.loads(blobs[codec])
        except Exception as e:  # noqa
            if codec == "json-quantity" and (shape in ("symbol-less", "folded") or shape.startswith("collision:")):
                out.fail(f"C15:quantity-unit-string:{shape}", f"{codec} document of 3 x {x!r} does not decode in another process ({type(e).__name__})")
            else:
                out.fail(f"C15:cross-process:{codec}:raises:{type(e).__name__}@{core.innermost_frame(e)}", f"decoding the {codec} document of {convgen.terms_str(terms)} in a fresh world raised {type(e).__name__}: {e}")
            continue
        u2 = back.unit if codec.endswith("quantity") else back
        if not isinstance(u2, m2.Unit):
            out.fail(f"C15:cross-process:{codec}:type", f"decoded {type(back).__name__}")
            continue
        if codec == "json-quantity" and (shape in ("symbol-less", "folded") or shape.startswith("collision:")):
            continue
        if tuple(u2.dimension.exponents) != want_dim:
            out.fail(f"C15:cross-process:{codec}:dimension", f"{codec} document of {convgen.terms_str(terms)} decoded in a fresh world has dimension {u2.dimension.exponents}, its factors give {want_dim}")
        snap2 = model.Snapshot(w2)
        z = snap2.build_terms(terms)
        if codec != "json-quantity" and z is not u2:
            out.fail(f"C15:cross-process:{codec}:identity", f"{codec} document of {convgen.terms_str(terms)}: the decoded unit is not the unit that the same arithmetic yields in the reading process")
        if tuple(z.dimension.exponents) != want_dim:
            out.fail(f"C15:cross-process:{codec}:poisoned", f"after decoding the {codec} document, {convgen.terms_str(terms)} built by arithmetic reports dimension {z.dimension.exponents} instead of {want_dim}")
    out.classes.append("cross-world:checked")
    out.nontrivial = "cross|" + convgen.terms_str(terms)
    out.sample = {"cross_process_document_of": convgen.terms_str(terms)}


def _run_cross_world_names(c, case, out):
    """writer and reader are two processes whose applications gave the same NAME to different
    derived dimensions ("density": mass per volume in one, charge per volume in the other).  A
    unit document carries its dimension; whatever the reader makes of the name, the unit it
    builds must have the dimension of its factors."""
    from ..world import World

    w1 = World(["si"])
    m1 = w1.m
    j1 = w1.load("json")
    m1.Dimension.derive(m1.Mass / m1.Volume, "vf15 density", "vfρ")
    U1 = m1.Unit._by_name
    xs = [U1["gram"] / U1["meter"] ** 3, (m1.Prefix._by_name["kilo"] * U1["gram"]) / U1["liter"], U1["gram"] ** 2 / U1["meter"] ** 6]
    docs = [(tuple(x.dimension.exponents), json.dumps(x, cls=j1.MeasuredJSONEncoder), json.dumps(m1.Quantity(3, x), cls=j1.MeasuredJSONEncoder), pickle.dumps(x)) for x in xs]
    w2 = World(["si"])
    m2 = w2.m
    j2 = w2.load("json")
    m2.Dimension.derive(m2.Charge / m2.Volume, "vf15 density", "vfρ")
    for want_dim, udoc, qdoc, blob in docs:
        for codec, fn in (("json", lambda: json.loads(udoc, cls=j2.MeasuredJSONDecoder)), ("json-quantity", lambda: json.loads(qdoc, cls=j2.MeasuredJSONDecoder).unit), ("pickle", lambda: pickle.loads(blob))):
            try:
                u2 = fn()
            except Exception as e:  # noqa -- refusing the document is a sound answer to the conflict
                out.classes.append(f"cross-world-names:{codec}:refused:{type(e).__name__}")
                continue
            have = tuple(u2.dimension.exponents)
            fac = [0] * len(have)
            for f, e in u2.factors.items():
                for i_, x_ in enumerate(f.dimension.exponents):
                    fac[i_] += x_ * e
            if have != tuple(fac):
                out.fail(f"C15:cross-process:{codec}:dimension-by-name", f"a {codec} document of a unit of dimension {want_dim}, named 'vf15 density' by its writer, decoded where that name means {tuple(m2.Dimension._by_name['vf15 density'].exponents)}: the unit reports {have}, its factors give {tuple(fac)}")
    out.classes.append("cross-world-names:checked")
    out.nontrivial = "cross-world-names"
    out.sample = {"scenario": "one dimension name, two meanings, documents cross"}


def _run_after_define(c, case, out):
    """a fresh world in which a new fundamental dimension is defined between two round trips of
    every dimension and named unit (Dimension.define resizes every exponent tuple in place)"""
    from ..world import World

    w2 = World(["si", "us", "iec"])
    m2 = w2.m
    j2 = w2.load("json")
    enc, dec = j2.MeasuredJSONEncoder, j2.MeasuredJSONDecoder

    def sweep(tag):
        objs = sorted(m2.Dimension._known.values(), key=lambda d: d.exponents) + [m2.Unit._by_name[n] for n in sorted(m2.Unit._by_name)]
        for obj in objs:
            for cname, fn in (("json", lambda x: json.loads(json.dumps(x, cls=enc), cls=dec)), ("pickle", lambda x: pickle.loads(pickle.dumps(x)))):
                try:
                    back = fn(obj)
                except Exception as e:  # noqa
                    out.fail(f"C15:after-define:{tag}:{cname}:raises:{type(e).__name__}", f"{cname} round trip of {obj!r} {tag} Dimension.define raised {type(e).__name__}: {e}")
                    continue
                if back is not obj:
                    out.fail(f"C15:after-define:{tag}:{cname}:identity", f"{cname} round trip of {obj!r} {tag} Dimension.define returned a different object {back!r}")
            if len(out.failures) > 10:
                return

    sweep("before")
    m2.Dimension.define("vf15 extra", "VFX")
    sweep("after")
    out.classes.append("after-define:checked")
    out.nontrivial = "after-define"
    out.sample = {"scenario": "round trips, Dimension.define, round trips again"}


def _run_stale_document(c, case, out):
    """a document written *before* an object received a further name/symbol and read afterwards:
    decoding returns the singleton and must leave the names and symbols it has now"""
    from ..world import World

    w2 = World(["si", "us"])
    m2 = w2.m
    j2 = w2.load("json")
    enc, dec = j2.MeasuredJSONEncoder, j2.MeasuredJSONDecoder
    meter, foot = m2.Unit._by_name["meter"], m2.Unit._by_name["foot"]
    compound = meter**2 / foot
    dim = m2.Length**5 / m2.Time
    pre = m2.Prefix(7, 3)
    docs = {}
    for label, obj in (("unit", meter), ("compound-unit", compound), ("dimension", dim), ("prefix", pre), ("quantity", m2.Quantity(3, foot))):
        docs[label] = (obj, pickle.dumps(obj), json.dumps(obj, cls=enc))
    meter.alias(name="vf15 metre", symbol="vf15m")
    foot.alias(symbol="vf15ft")
    m2.Unit.derive(compound, "vf15 compound", "vf15c")
    m2.Dimension.derive(dim, "vf15 dim", "VFD")
    m2.Prefix(7, 3, name="vf15 pre", symbol="vfp")
    now = {"unit": _labels(meter, m2), "compound-unit": _labels(compound, m2), "dimension": _labels(dim, m2), "prefix": _labels(pre, m2), "quantity": _labels(foot, m2)}
    for label, (obj, blob, text) in docs.items():
        target = obj.unit if label == "quantity" else obj
        for cname, fn in (("pickle", lambda: pickle.loads(blob)), ("json", lambda: json.loads(text, cls=dec)), ("deepcopy", lambda: copy.deepcopy(obj))):
            try:
                back = fn()
            except Exception as e:  # noqa
                out.fail(f"C15:stale-document:{label}:{cname}:raises:{type(e).__name__}", f"{cname} of an older document of {obj!r} raised {type(e).__name__}: {e}")
                continue
            got = back.unit if label == "quantity" else back
            if got is not target:
                out.fail(f"C15:stale-document:{label}:{cname}:identity", f"{cname} of an older document of {obj!r} returned another object")
            if _labels(target, m2) != now[label]:
                out.fail(f"C15:stale-document:{label}:{cname}:labels", f"reading a {cname} document written before {target!r} got further names/symbols changed them from {now[label]} to {_labels(target, m2)}")
                # restore for the following codecs
                if label in ("unit", "compound-unit", "quantity"):
                    target.names, target.symbols = now[label]
                else:
                    target.name, target.symbol = now[label]
    out.classes.append("stale-document:checked")
    out.nontrivial = "stale-document"
    out.sample = {"scenario": "encode, add a name/symbol, decode the older document"}


def _run_long_lived_decoder(c, case, out):
    """one decoder object (and one codecs_installed() block) lives through the import of further
    unit modules: quantity documents are read before a module registers their unit text as a
    symbol of its own ("hh" is hecto-hour until measured.us defines the hand) and quantities of
    the newly registered units are round-tripped afterwards"""
    from ..world import World

    candidates = sorted(t for t in c.m.Unit._by_symbol if isinstance(t, str) and t)
    w2 = World(["si"])
    m2 = w2.m
    j2 = w2.load("json")
    enc = j2.MeasuredJSONEncoder
    decoder = j2.MeasuredJSONDecoder()
    n_pre = n_post = 0
    with j2.codecs_installed():
        early = [t for t in candidates if t not in m2.Unit._by_symbol]
        from ..world import SHIPPED_MODULES

        # the texts are read again before every further module is imported: what a text means
        # changes as the symbol tables grow (hecto-hour, then hand)
        for mod in [x for x in SHIPPED_MODULES if x != "si"] + [None]:
            for t in early:
                if t in m2.Unit._by_symbol:
                    continue
                doc = json.dumps({"__measured__": "Quantity", "magnitude": 16, "unit": t})
                for fn in (decoder.decode, json.loads):
                    try:
                        fn(doc)
                        n_pre += 1
                    except Exception:  # noqa -- most texts mean nothing yet
                        pass
            if mod is not None:
                w2.load(mod)
        w2.load("measured.systems")
        for t in early:
            u = m2.Unit._by_symbol.get(t)
            if u is None:
                continue
            q = m2.Quantity(16, u)
            for cname, fn in (("decoder-object", lambda x: decoder.decode(json.dumps(x, cls=enc))), ("installed", lambda x: json.loads(json.dumps(x)))):
                try:
                    back = fn(q)
                except Exception as e:  # noqa
                    out.fail(f"C15:long-lived-decoder:{cname}:raises:{type(e).__name__}", f"{cname} round trip of {q!r} raised {type(e).__name__}: {e}")
                    continue
                n_post += 1
                if not isinstance(back, m2.Quantity) or back.unit is not u or back.magnitude != 16 or type(back.magnitude) is not int:
                    if isinstance(back, m2.Quantity) and str(back.unit) == str(u) and m2.Unit.parse(str(u)) is not u:
                        continue  # the unit's own text does not parse back to it: C13's findings (K-UNIT-STRING)
                    out.fail(f"C15:long-lived-decoder:{cname}:value", f"{cname} round trip of {q!r} through a decoder that had read {t!r} before the unit was registered gave {back!r}")
    out.classes.append("long-lived-decoder:checked")
    if n_pre and n_post:
        out.nontrivial = "long-lived-decoder"
        out.sample = {"scenario": "documents read before their unit text is registered, round trips after", "early_documents_decoded": n_pre, "round_trips_after_import": n_post}


def _safe_str(x):
    try:
        return repr(str(x))
    except Exception as e:  # noqa -- str() itself raises for some mixed-base prefixes (C13's subject)
        return f"<str() raises {type(e).__name__}: {e}>"


def _equal_value(c, a, b):
    from fractions import Fraction

    sa, sb = c.sizes.unit_size(a.unit, True), c.sizes.unit_size(b.unit, True)
    if sa is None or sb is None or a.unit.dimension is not b.unit.dimension:
        return False
    try:
        x, y = Fraction(a.magnitude) * sa, Fraction(b.magnitude) * sb
    except (ValueError, OverflowError):
        return False
    return x == y or abs(x - y) <= Fraction(1, 10**12) * max(abs(x), abs(y))


def still_fails(case, bucket):
    return any(f.bucket == bucket for f in run_case(case).failures)


def vacuity(col):
    need = ["stale-document:checked", "long-lived-decoder:checked", "prefix-triples:checked", "cross-world:checked", "after-define:checked", "unit:pickle5", "unit:json", "quantity:json", "quantity:composite", "dimension:json", "prefix:deepcopy"]
    missing = [k for k in need if not col.classes.get(k)]
    return missing or None
