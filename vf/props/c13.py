"""C13 -- str() output parses back to the same unit/quantity; spellings are equivalent."""
from __future__ import annotations

import re
from fractions import Fraction

from hypothesis import strategies as st

from .. import convgen, core, model

ID = "C13"
RULE = (
    "Exhaustive: (registered prefix or none) x every registered unit x exponent in +-1..3 as unit and as "
    "quantity with an int and a float magnitude (str -> parse). Hypothesis: products of 2-3 prefixed terms "
    "(str -> parse), and spelling variants of one term list (^n / superscripts, '*' / dot operator / blank, "
    "a/b vs negative exponents, random whitespace, symbol / alias symbol / registered name). Oracle: object "
    "identity, else exact size and dimension (size oracle) for the documented kg-style mapping; a text that "
    "parses to a unit of another physical value is a collision. Non-trivial: prefix, or |exponent|>1, or "
    ">=2 terms; distinct = canonical unit (and spelling)."
)
ASSUMPTIONS = [
    "symbol resolution model = the documented order: exact symbol, then prefix+symbol split (shortest prefix first), then name; used only to predict which prefixed spellings are ambiguous",
    "when str(unit) carries a folded magnitude (the library's documented device for a prefix it cannot push into the first factor) the requirement is Quantity.parse(str(u)) == 1*u",
    "a parsed-back quantity whose SI value agrees within 1e-12 relative counts as equal (float rounding of the folded magnitude)",
]

C = None
LEXABLE = re.compile(r"^[1a-zA-ZÅₐ-ₜΑ-ω☉.°\-()]+$")
SUP = str.maketrans("-0123456789", "⁻⁰¹²³⁴⁵⁶⁷⁸⁹")


def setup(tier):
    global C
    if C is None:
        C = convgen.ctx()
        m = C.m
        C.usym = dict(m.Unit._by_symbol)
        C.uname = dict(m.Unit._by_name)
        C.psym = dict(m.Prefix._by_symbol)
        C.all_units = dict(C.snap.units)  # includes scale units (celsius ...)


def budget(tier):
    return {"examples": 2000, "shards": 1} if tier == "quick" else {"examples": 20000, "shards": 16}


SHIPPED_PREFIXES = [(10, e) for e in (30, 27, 24, 21, 18, 15, 12, 9, 6, 3, 2, 1, -1, -2, -3, -6, -9, -12, -15, -18, -21, -24, -27, -30)] + [(2, e) for e in (10, 20, 30, 40, 50, 60, 70, 80)]
CONFIG_MODS = ["si", "us", "avoirdupois", "troy", "energy", "astronomical", "natural", "metric", "iec", "iso", "fff", "computing", "geometry"]


def config_ctx(mods):
    """a context like convgen.ctx() for a fresh world with only `mods` imported (symbol tables,
    and therefore what a text resolves to, depend on the set of imported modules)"""
    from .. import model
    from ..sizes import Sizes
    from ..world import World

    w = World(list(mods))
    c = convgen.Ctx()
    c.w, c.m, c.One = w, w.m, w.m.One
    c.snap = model.Snapshot(w)
    c.sizes = Sizes(w, w.m.One)
    c.usym = dict(w.m.Unit._by_symbol)
    c.uname = dict(w.m.Unit._by_name)
    c.psym = dict(w.m.Prefix._by_symbol)
    c.all_units = dict(c.snap.units)
    c.prefixes = sorted(n for n in c.snap.prefixes if n)
    return c


def run_config(case, out):
    """str -> parse round trip of every (prefix | none) x unit x exponent in {1, 2, -1} in a
    world that imported only the listed modules"""
    try:
        mods = case["mods"]
        if not isinstance(mods, list) or not all(m_ in CONFIG_MODS for m_ in mods):
            raise ValueError
    except Exception:
        out.invalid = True
        return
    # modules are imported one after the other with a full pass after each import, so that
    # texts are also parsed *before* a later module registers them as symbols
    n = 0
    for k in range(1, len(mods) + 1):
        if k == 1:
            c = config_ctx(mods[:1])
        else:
            c.w.load(mods[k - 1])
            from .. import model
            from ..sizes import Sizes

            c.snap = model.Snapshot(c.w)
            c.sizes = Sizes(c.w, c.m.One)
            c.usym, c.uname, c.psym = dict(c.m.Unit._by_symbol), dict(c.m.Unit._by_name), dict(c.m.Prefix._by_symbol)
            c.all_units = dict(c.snap.units)
            c.prefixes = sorted(x_ for x_ in c.snap.prefixes if x_)
        scratch = core.Outcome() if k < len(mods) else out
        # prefixes that some shipped module registers may exist anonymously before that module is
        # imported (results of arithmetic, Prefix(2, 10)); they are rendered here as well, so that
        # the same unit is rendered again after the prefix has been named
        prefix_objs = [("", c.m.IdentityPrefix)] + [(pn, c.snap.prefixes[pn]) for pn in c.prefixes]
        known = {(p_.base, p_.exponent) for _, p_ in prefix_objs}
        for base, exp in SHIPPED_PREFIXES:
            if (base, exp) not in known:
                prefix_objs.append((f"anon:{base}^{exp}", c.m.Prefix(base, exp)))
        for pn, pobj in prefix_objs:
            for u in sorted(c.all_units):
                for e in (1, 2, -1):
                    x = (pobj * c.all_units[u]) ** e
                    if pn.startswith("anon:"):
                        try:
                            str(x), str(3 * x)  # symbol-less today (K-SYMBOLLESS): only rendered
                        except Exception as ex:  # noqa
                            scratch.fail(f"C13:str-raises:{type(ex).__name__}@{core.innermost_frame(ex)}", f"str() of a unit with the anonymous prefix {base}^{exp} raised {ex!r}")
                        continue
                    _check_roundtrip(c, scratch, x, [[pn, u, e]], [3])
                    n += 1
            if len(scratch.failures) > 200:
                break
    out.classes.append("config:units-checked")
    out.nontrivial = "config|" + "+".join(mods)
    out.sample = {"imported_modules": mods, "units_round_tripped": n}
    convgen.ctx()  # back to the shared world


def run_user_names(case, out):
    """An application registers additional *names* for units -- here, adversarially, the very
    texts that str() produces for prefixed units of other units ("kt" for the knot, which is also
    str(Kilo * Tonne)).  Names are looked up after symbols and prefixed symbols, so every
    rendering must still parse back to the unit it was made from."""
    try:
        stride, offset = int(case["stride"]), int(case["offset"])
        if not (7 <= stride <= 1000 and 0 <= offset < stride):
            raise ValueError
    except Exception:
        out.invalid = True
        return
    c = config_ctx(CONFIG_MODS)
    m = c.m
    units = sorted(c.all_units)
    pairs = [(pn, u) for pn in c.prefixes for u in units]
    made = []
    for idx in range(offset, len(pairs), stride):
        pn, u = pairs[idx]
        x = c.snap.prefixes[pn] * c.all_units[u]
        try:
            text = str(x)
        except Exception:  # noqa -- rendering failures are the single-term cases' business
            continue
        host = c.all_units[units[(idx * 13 + 5) % len(units)]]
        if text in m.Unit._by_symbol or text in m.Unit._by_name or not text.strip() or host is c.all_units[u]:
            continue
        if predict(c, text) is None or predict(c, text)[1] is not c.all_units[u]:
            continue  # a rendering that already collides (K-COLLISION) or folds a magnitude
        try:
            host.alias(name=text)
        except ValueError:
            continue
        made.append((pn, u, x, text, host))
    c.uname = dict(m.Unit._by_name)
    for pn, u, x, text, host in made:
        if m.Unit._by_name.get(text) is not host:
            out.fail("C13:user-name:not-bound", f"{host!r}.alias(name={text!r}) returned, but the name is bound to {m.Unit._by_name.get(text)!r}")
        _check_roundtrip(c, out, x, [[pn, u, 1]], [3])
    out.classes.append("user-names:checked")
    if len(made) >= 2:
        out.nontrivial = f"user-names|{stride}|{offset}"
        out.sample = {"user_registered_names_equal_to_renderings": len(made), "first": [made[0][3], str(made[0][4])]}
    convgen.ctx()  # back to the shared world


def enumerate_cases(tier):
    out = []
    for offset in ((0, 3) if tier == "quick" else range(0, 29, 2)):
        out.append({"k": "user-names", "stride": 29, "offset": offset})
    # configurations: every shipped module on its own (with whatever it imports itself), and
    # in the thorough tier every pair of modules
    for mod in CONFIG_MODS:
        out.append({"k": "config", "mods": [mod]})
    for a, b in (("si", "us"), ("si", "metric"), ("us", "astronomical"), ("si", "iec")):
        out.append({"k": "config", "mods": [a, b]})
    if tier == "thorough":
        for a in CONFIG_MODS:
            for b in CONFIG_MODS:
                if a != b and {"k": "config", "mods": [a, b]} not in out:
                    out.append({"k": "config", "mods": [a, b]})
    for p in [""] + C.prefixes:
        for u in sorted(C.all_units):
            for e in (1, 2, 3, -1, -2, -3):
                out.append({"k": "single", "terms": [[p, u, e]]})
    # prefixes of both bases cancelling exactly, in every order of the four terms
    import itertools

    for p2, p10, k, j in (("kibi", "kilo", 1, 1), ("tebi", "hecto", 2, 3), ("mebi", "milli", 3, 1), ("kibi", "micro", 2, 2)):
        if p2 in C.snap.prefixes and p10 in C.snap.prefixes:
            ts = [[p2, "meter", k], [p10, "second", j], [p2, "gram", -k], [p10, "ampere", -j]]
            for order in itertools.permutations(range(4)):
                out.append({"k": "product", "terms": [ts[i] for i in order], "mag": 3})
    return out


def strategy(tier):
    c = C
    P = st.sampled_from([""] * 3 + c.prefixes)
    U = st.sampled_from(sorted(c.all_units))
    E = st.sampled_from([1, 1, 2, 3, -1, -2, -3])
    term = st.tuples(P, U, E).map(list)
    terms = st.lists(term, min_size=2, max_size=3)
    SEP = st.sampled_from(["⋅", "*", " ⋅ ", " * ", "⋅ ", " *"])
    BLANK = st.sampled_from([" ", "  ", "\t"])
    EXPF = st.sampled_from(["sup", "caret", "caret+"])
    NAMEF = st.sampled_from(["symbol", "symbol", "alias", "name"])
    MAGS = st.sampled_from([1, 3, 12, 1000, 2.5, 0.125, 1e-3, 7.0, -4, 0])

    P2 = st.sampled_from([p_ for p_ in c.prefixes if c.snap.prefixes[p_].base == 2])
    P10 = st.sampled_from([p_ for p_ in c.prefixes if c.snap.prefixes[p_].base == 10])

    @st.composite
    def cancelling(draw):
        """prefixes of both bases that cancel exactly in the mathematics while the library's
        base-changed float exponent keeps a residue of 1e-15 or so"""
        k, j = draw(st.sampled_from([1, 2, 3])), draw(st.sampled_from([1, 2, 3]))
        p2, p10 = draw(P2), draw(P10)
        ts = [[p2, draw(U), k], [p10, draw(U), j], [p2, draw(U), -k], [p10, draw(U), -j]]
        return {"k": "product", "terms": convgen.shuffle(draw, ts), "mag": draw(MAGS)}

    @st.composite
    def mix(draw):
        sel = draw(convgen.INT10)
        if sel == 9:
            return draw(cancelling())
        ts = draw(terms)
        if sel < 5:
            return {"k": "product", "terms": ts, "mag": draw(MAGS)}
        n = len(ts)
        # the grammar allows juxtaposition *or* operators within one sequence, not a mixture
        juxta = draw(st.booleans())
        case = {"k": "spelling", "terms": ts, "sep": [draw(BLANK if juxta else SEP) for _ in range(n)], "expf": [draw(EXPF) for _ in range(n)],
                "namef": [draw(NAMEF) for _ in range(n)], "ratio": draw(st.booleans()), "pad": draw(st.sampled_from(["", " ", "  "]))}
        if draw(convgen.INT10) < 2:
            case["ratio"] = False
            case["zero"] = [draw(U), draw(st.sampled_from(["sup", "caret"]))]
        return case

    return mix()


# ---------------------------------------------------------------- models


def predict(c, text):
    """documented resolution order over the registry tables -> (prefix or None, unit) | None"""
    if text in c.usym:
        return (None, c.usym[text])
    for i in range(1, len(text)):
        pre, rest = text[:i], text[i:]
        if pre in c.psym and rest in c.usym:
            return (c.psym[pre], c.usym[rest])
    if text in c.uname:
        return (None, c.uname[text])
    return None


def _exact_size(c, u):
    return c.sizes.unit_size(u, approx_mixed=True)


def _same_value(c, x, y):
    """identical scale and dimension by the oracle (scale units: identity only)"""
    if x is y:
        return True
    if x.dimension is not y.dimension:
        return False
    sx, sy = _exact_size(c, x), _exact_size(c, y)
    if sx is None or sy is None or not c.sizes.determined(x, y):
        return False
    if sx == sy:
        return True
    return abs(sx - sy) <= Fraction(1, 10**12) * max(abs(sx), abs(sy)) and (model.m_mixed(model.m_prefix_of(x.prefix)) or not isinstance(x.prefix.exponent, int) or not isinstance(y.prefix.exponent, int))


def _expect_render(c, x):
    """independent prediction of which rendering branch str(x) takes:
    'symbol' | 'pushed' | 'symbol-less' | 'folded'"""
    m = c.m
    if x.symbol:
        return "symbol"
    first, e1 = next(iter(x.factors.items()))
    p = x.prefix
    if p.base == 0:
        return "pushed"
    ex = p.exponent
    if not isinstance(ex, int):
        if float(ex) != int(ex):
            return "folded"
        ex = int(ex)
    if ex % e1 != 0:
        return "folded"
    pushed = (p.base, ex // e1)
    if pushed[1] == 0:
        return "pushed"
    reg = m.Prefix._known.get(pushed)
    if reg is not None and reg.symbol:
        return "pushed"
    return "symbol-less"


def collision_key(c, x, branch):
    """a collision is identified by what is actually spelled: the prefix pushed onto the first
    factor (whatever product of prefixes it came from) and that factor's unit"""
    m = c.m
    if branch == "pushed" and x.prefix.base:
        first, e1 = next(iter(x.factors.items()))
        ex_ = int(x.prefix.exponent)
        reg = m.Prefix._known.get((x.prefix.base, ex_ // e1))
        if reg is not None and reg.symbol and first.symbol:
            pred = predict(c, reg.symbol + first.symbol)
            if pred is not None and (pred[1] is not first or pred[0] is not reg):
                return f"{reg.name}+{first.name}"
    return None


def _check_roundtrip(c, out, x, terms, mags):
    m = c.m
    PE = c.w.m.parsing.ParseError if hasattr(c.w.m, "parsing") else None
    from measured.parsing import ParseError

    label = convgen.terms_str(terms)
    branch = _expect_render(c, x)
    out.classes.append(f"render:{branch}")
    try:
        s = str(x)
        for mag in mags:
            str(m.Quantity(mag, x))
    except Exception as e:  # noqa
        out.fail(f"C13:str-raises:{type(e).__name__}@{core.innermost_frame(e)}", f"str() of {label} (prefix {x.prefix!r}) raised {type(e).__name__}: {e}")
        return
    pkey = collision_key(c, x, branch)
    if pkey is None:
        pkey = "unpredicted:" + "+".join(f"{p or 'none'}+{u}" for p, u, e in terms)
    # ---- unit round trip
    try:
        y = m.Unit.parse(s)
        err = None
    except (ParseError, KeyError) as e:
        y, err = None, e
    except Exception as e:  # noqa
        out.fail(f"C13:parse-raises:{type(e).__name__}@{core.innermost_frame(e)}", f"Unit.parse({s!r}) [str of {label}] raised {type(e).__name__}: {e}")
        return
    if y is not None:
        if y is x:
            out.classes.append("unit:identical")
        elif _same_value(c, x, y):
            out.classes.append("unit:equal-named-unit")
        else:
            out.fail(f"C13:collision:{pkey}", f"str({label}) = {s!r} parses to {y!r}, a unit of another physical value")
    else:
        if branch == "folded":
            try:
                q = m.Quantity.parse(s)
                ok = (q == 1 * x)
                if not ok:
                    sq, sx = c.sizes.unit_size(q.unit, True), _exact_size(c, x)
                    if sq is not None and sx is not None and q.unit.dimension is x.dimension:
                        v = Fraction(q.magnitude) * sq
                        ok = abs(v - sx) <= Fraction(1, 10**12) * abs(sx)
                if not ok:
                    out.fail("C13:folded:not-equal", f"str({label}) = {s!r} parses as quantity {q!r}, which is not 1 x the unit")
                out.classes.append("unit:folded-quantity")
            except (ParseError, KeyError) as e2:
                out.fail(f"C13:folded:unparseable:{type(e2).__name__}", f"str({label}) = {s!r} carries a folded magnitude but does not parse as a quantity: {e2}")
        elif branch == "symbol-less":
            out.fail("C13:unparseable:symbol-less-prefix", f"str({label}) = {s!r} spells a prefix without registered symbol; {type(err).__name__}")
        else:
            out.fail(f"C13:unparseable:{branch}:{type(err).__name__}", f"str({label}) = {s!r} does not parse: {type(err).__name__}: {str(err)[:120]}")
    # ---- quantity round trip
    for mag in mags:
        q = m.Quantity(mag, x)
        sq_ = str(q)
        try:
            r = m.Quantity.parse(sq_)
        except (ParseError, KeyError) as e:
            if branch == "symbol-less":
                out.fail("C13:unparseable:symbol-less-prefix", f"str({mag!r} x {label}) = {sq_!r} spells a prefix without registered symbol")
            else:
                out.fail(f"C13:quantity-unparseable:{branch}:{type(e).__name__}", f"str({mag!r} x {label}) = {sq_!r} does not parse: {str(e)[:120]}")
            continue
        except Exception as e:  # noqa
            out.fail(f"C13:parse-raises:{type(e).__name__}@{core.innermost_frame(e)}", f"Quantity.parse({sq_!r}) raised {type(e).__name__}: {e}")
            continue
        try:
            eq = (r == q)
        except Exception as e:  # noqa
            eq = False
        if not eq:
            ok = False
            sr, sx = c.sizes.unit_size(r.unit, True), _exact_size(c, x)
            if sr is not None and sx is not None and r.unit.dimension is x.dimension and c.sizes.determined(r.unit, x):
                a, b = Fraction(r.magnitude) * sr, Fraction(mag) * sx
                ok = a == b or abs(a - b) <= Fraction(1, 10**12) * max(abs(a), abs(b))
            if not ok:
                if y is not None and not _same_value(c, x, y):
                    out.fail(f"C13:collision:{pkey}", f"str({mag!r} x {label}) = {sq_!r} parses to {r!r}, another physical value")
                else:
                    out.fail(f"C13:quantity-not-equal:{branch}", f"str({mag!r} x {label}) = {sq_!r} parses to {r!r}, which is not equal")
        out.classes.append("quantity:checked")


def _spell(c, case):
    """-> text, or None when a prefixed spelling is predicted ambiguous / not expressible"""
    m = c.m
    parts = []
    for (p, u, e), expf, namef in zip(case["terms"], case["expf"], case["namef"]):
        unit = c.all_units[u]
        psym = c.snap.prefixes[p].symbol if p else ""
        if p and not psym:
            return None
        if namef == "name" and not p and LEXABLE.match(u):
            base = u
        elif namef == "alias" and len(unit.symbols) > 1:
            base = unit.symbols[-1]
        else:
            base = unit.symbol
        if not base or not LEXABLE.match(base):
            return None
        text = psym + base
        pred = predict(c, text)
        want_p = c.snap.prefixes[p] if p else None
        if pred is None or pred[1] is not unit or (pred[0] is not want_p):
            return None
        parts.append((text, e, expf))
    def ex(e, f):
        if e == 1:
            return ""
        if f == "sup":
            return str(e).translate(SUP)
        if f == "caret+" and e > 0:
            return f"^+{e}"
        return f"^{e}"
    pad = case["pad"]
    if case["ratio"] and any(e < 0 for _, e, _ in parts) and any(e > 0 for _, e, _ in parts):
        num = [(t, e, f) for t, e, f in parts if e > 0]
        den = [(t, -e, f) for t, e, f in parts if e < 0]
        seps = list(case["sep"])
        def join(ts):
            s = ""
            for i, (t, e, f) in enumerate(ts):
                if i:
                    s += seps[i % len(seps)]
                s += t + ex(e, f)
            return s
        return pad + join(num) + pad + "/" + pad + join(den) + pad
    s = pad
    for i, (t, e, f) in enumerate(parts):
        if i:
            s += case["sep"][i]
        s += t + ex(e, f)
    zero = case.get("zero")
    if isinstance(zero, list) and len(zero) == 2 and zero[0] in c.all_units and parts:
        # a further term raised to the power zero (x^0, x⁰): it is one, and changes nothing
        zu = c.all_units[zero[0]]
        if zu.symbol and LEXABLE.match(zu.symbol) and predict(c, zu.symbol) is not None and predict(c, zu.symbol)[1] is zu:
            s += case["sep"][0] + zu.symbol + ("⁰" if zero[1] == "sup" else "^0")
    return s + pad


def run_case(case) -> core.Outcome:
    out = core.Outcome()
    c = convgen.ctx()
    m = c.m
    if isinstance(case, dict) and case.get("k") == "user-names":
        run_user_names(case, out)
        if out.invalid:
            out.failures = []
        return out
    if isinstance(case, dict) and case.get("k") == "config":
        run_config(case, out)
        return out
    try:
        kind = case["k"]
        terms = case["terms"]
        if kind not in ("single", "product", "spelling") or not isinstance(terms, list) or not terms:
            raise ValueError
        for p, u, e in terms:
            if p not in c.snap.prefixes or u not in c.all_units or isinstance(e, bool) or not isinstance(e, int) or e == 0 or abs(e) > 3:
                raise ValueError
        if kind == "spelling":
            n = len(terms)
            if not (len(case["sep"]) == len(case["expf"]) == len(case["namef"]) == n):
                raise ValueError
    except Exception:
        out.invalid = True
        return out
    x = m.One
    for p, u, e in terms:
        x = x * (c.snap.prefixes[p] * c.all_units[u]) ** e
    if kind in ("single", "product"):
        mags = [3, 2.5] if kind == "single" else [case.get("mag", 1)]
        mags = [v for v in mags if isinstance(v, (int, float)) and not isinstance(v, bool)]
        _check_roundtrip(c, out, x, terms, mags)
        if any(p for p, _, _ in terms) or any(abs(e) > 1 for _, _, e in terms) or len(terms) > 1:
            out.nontrivial = f"{kind}|{convgen.terms_str(terms)}"
            try:
                out.sample = {"unit": convgen.terms_str(terms), "str": str(x)}
            except Exception:  # noqa -- reported by _check_roundtrip
                out.sample = {"unit": convgen.terms_str(terms)}
        return out
    text = _spell(c, case)
    if text is None:
        out.classes.append("spelling:not-expressible-or-ambiguous")
        return out
    from measured.parsing import ParseError

    try:
        y = m.Unit.parse(text)
    except (ParseError, KeyError) as e:
        out.fail(f"C13:spelling:rejected:{type(e).__name__}", f"spelling {text!r} of {convgen.terms_str(terms)} was rejected: {str(e)[:150]}")
        return out
    except Exception as e:  # noqa
        out.fail(f"C13:parse-raises:{type(e).__name__}@{core.innermost_frame(e)}", f"Unit.parse({text!r}) raised {type(e).__name__}: {e}")
        return out
    # a/b c  divides by the whole sequence after the slash, which is how the text was built
    if y is not x:
        bases = {c.snap.prefixes[p].base for p, _, _ in terms if p} | {b for _, u, _ in terms for b in model.m_prefix_of(c.all_units[u].prefix)}
        same = False
        if len(bases) > 1 and dict(y.factors) == dict(x.factors) and y.dimension is x.dimension:
            # prefixes of different bases: the same laws hold for the numeric scale only
            a, b = float(x.prefix.quantify()), float(y.prefix.quantify())
            same = abs(a - b) <= 1e-9 * max(abs(a), abs(b))
        if not same:
            out.fail("C13:spelling:different-unit", f"spelling {text!r} parses to {y!r}, not to {x!r}")
    out.classes.append("spelling:checked")
    try:
        q = m.Quantity.parse("7 " + text)
        if q.unit is not y or q.magnitude != 7:
            out.fail("C13:spelling:quantity", f"Quantity.parse('7 ' + {text!r}) = {q!r}")
    except Exception as e:  # noqa
        out.fail(f"C13:spelling:quantity:{type(e).__name__}", f"Quantity.parse('7 ' + {text!r}) raised {e!r}")
    out.nontrivial = f"spelling|{text}"
    out.sample = {"terms": convgen.terms_str(terms), "spelling": text}
    return out


def still_fails(case, bucket):
    return any(f.bucket == bucket for f in run_case(case).failures)


def vacuity(col):
    missing = [k for k in ("unit:identical", "unit:folded-quantity", "spelling:checked", "quantity:checked") if not col.classes.get(k)]
    return missing or None
