"""C19 -- declared names/symbols bind faithfully; failed definitions change nothing.

Model-based stateful generation in a fresh world.  A history mixes anonymous construction,
naming (constructor with name/symbol, derive, alias, define) with fresh, duplicate and
malformed arguments in every position, injected exceptions, and imports of the shipped
modules in a generated order; every history ends by importing all shipped modules.

The model is the dict of *declared* bindings, built from the intercepted definition calls
(wrappers installed from outside on Unit.alias -- which define/derive/__init__ go through --
Dimension.__init__/derive and Prefix.__init__): a call that returns normally with a name or
symbol declares that binding for the object it was made on.
"""
from __future__ import annotations

import importlib

from hypothesis import strategies as st

from .. import core
from ..world import SHIPPED_MODULES, World

ID = "C19"
RULE = (
    "Hypothesis histories (4-25 steps) in a fresh world: anonymous dimensions/prefixes/units, naming them "
    "afterwards (constructor with name/symbol, Dimension.derive, Unit.derive, alias), Unit.define / "
    "Dimension.derive / alias / Prefix(...) with fresh, duplicate (own and shipped) and malformed (space, "
    "empty) names and symbols in every argument position, a symbol object whose containment test raises "
    "(exception part-way through alias), imports of shipped modules in generated order, then import of all "
    "modules. After every step: every declared binding resolves to its object and the object reports it; no "
    "name/symbol belongs to two objects; a raising call leaves all registries of the three classes unchanged. "
    "Final named registries are compared with the default import order. Non-trivial: naming after anonymous "
    "creation, or a raising definition; distinct = (rule, argument class, prior-state class)."
)
ASSUMPTIONS = [
    "a call that returns normally and was given a name/symbol counts as a declaration of that binding (intercepted from outside, no source change)",
    "registries compared: _by_name, _by_symbol, _base, _known (by object), _fundamental and every object's name(s)/symbol(s)",
]

SHIPPED_NAMES = {"meter", "kilo", "second"}
SHIPPED_SYMS = {"m", "k", "s", "d", "da", "L"}
NAMES = ["vfa", "vfb", "vfc", "vfd", "meter", "kilo", "length", "second", "vf e", "", "va", "vb",  # "va", "vb" are also symbols
         "vfe\u0301talon", "\u212bvf", "vf\u2126", "vf\ufb01"]  # names that Unicode normalisation would change
SYMS = ["va", "vb", "vc", "vd", "m", "k", "L", "s", "v x", "", "d", "da"]
MODS = [m for m in SHIPPED_MODULES]
LOOKUPS = ["va", "vb", "vc", "vd", "kva", "kvb", "mvc", "hh", "ha", "cd", "nmi", "min.", "Pa", "TR", "dam", "kt", "dm", "hm", "vfa", "vfb"]
OPS = ["lookup", "anon_dim", "name_dim_ctor", "derive_dim", "anon_prefix", "name_prefix", "define_unit", "anon_unit", "derive_unit",
       "alias", "alias_bad", "import", "define_dim", "scale", "overlap", "anon_dim_doc", "stale_dim_doc"]
# the "overlap" op: two prefixes and two units of the history's own whose symbols overlap, declared
# one at a time in generated order -- "vqxy" is vq+xy or vqx+y depending on what exists
OVERLAP_TEXTS = ["vqxy", "vqy", "vqxxy"]


def setup(tier):
    pass


def budget(tier):
    return {"examples": 250, "shards": 1} if tier == "quick" else {"examples": 1500, "shards": 16}


def strategy(tier):
    OP = st.sampled_from(OPS + ["lookup", "scale", "anon_prefix", "name_prefix", "anon_dim", "derive_dim", "alias", "define_unit", "derive_unit", "import", "overlap", "overlap", "anon_dim_doc", "define_dim", "stale_dim_doc", "define_dim"])
    I = st.integers(0, 999)
    step = st.tuples(OP, I, I, I, I).map(list)
    return st.builds(lambda steps: {"steps": steps}, st.lists(step, min_size=4, max_size=25))


def enumerate_cases(tier):
    # every shipped module imported first, alone, then all the rest (import-order configurations)
    cases = [{"steps": [["import", i, 0, 0, 0]]} for i in range(len(MODS))]
    cases.append({"steps": []})
    # every interesting text looked up after si alone is imported, before the modules that
    # declare it as a symbol
    n = len(LOOKUPS)
    cases.append({"steps": [["import", MODS.index("si"), 0, 0, 0]] + [["lookup", i, (i + 1) % n, 0, 0] for i in range(0, n, 2)]})
    # a unit whose *name* is another unit's *symbol* ("va", "vb" are in both pools), in both orders
    # and through define / derive / alias
    for first, second in ((["define_unit", 0, 0, 0, 0], ["define_unit", 10, 2, 0, 0]), (["define_unit", 10, 2, 0, 0], ["define_unit", 0, 0, 0, 0]),
                          (["define_unit", 1, 1, 0, 0], ["anon_unit", 0, 0, 1, 1]), (["define_unit", 11, 3, 0, 0], ["define_unit", 2, 1, 0, 0])):
        cases.append({"steps": [first, second, ["lookup", 0, 1, 0, 0]]})
        cases.append({"steps": [first, ["anon_unit", 0, 0, 2, 1], ["derive_unit", 11, 3, 0, 0], second, ["alias", 10, 2, 0, 0]]})
    # a dimension that arrives in a document, then the definition of a new fundamental dimension
    cases.append({"steps": [["anon_dim_doc", 1, 0, 0, 0], ["define_dim", 0, 0, 0, 0], ["anon_dim_doc", 2, 0, 3, 1], ["define_dim", 1, 1, 0, 0]]})
    # a dimension document written before the process defined further fundamental dimensions is read
    # afterwards and the dimension it yields is given a name, with and without a symbol of its own
    for nsym in (0, 1, 2):
        for ndef in (1, 2, 3):
            sym = [9, 0, 9][nsym]  # SYMS[9] is the empty symbol: the default symbol has to be rendered
            cases.append({"steps": [["anon_dim", 0, 0, 1, 1]] + [["define_dim", k, k + 2, 0, 0] for k in range(ndef)]
                          + [["stale_dim_doc", 1, 0, 4 + nsym, 2], ["derive_dim", 3, sym, 0, 0], ["lookup", 3, 0, 0, 0], ["derive_dim", 3, 1, 6, 0]]})
    # overlapping symbols of the history's own, declared in every order with look-ups in between
    for perm in range(24):
        cases.append({"steps": [["overlap", 0, 0, perm, 0]]})
        cases.append({"steps": [["overlap", 0, 0, perm, 1 + perm % 3]]})   # ... named after anonymous creation
    # the anonymous-then-named prefix shapes for every shipped prefix exponent
    for e in (-1, 1, 2, -2, 3, -3, 6, 10, 20):
        for base in (10, 2):
            cases.append({"steps": [["anon_prefix", base, e + 50, 0, 0]]})
    return cases


class BadSymbol(str):
    """a symbol whose containment test raises: alias() fails part-way"""

    def __contains__(self, item):
        raise RuntimeError("injected failure while validating the symbol")


class Run:
    def __init__(self):
        self.w = World([])
        m = self.w.m
        self.m = m
        self.decl = {"Unit": {"name": {}, "symbol": {}}, "Dimension": {"name": {}}, "Prefix": {"name": {}, "symbol": {}}}
        self.clashes = []
        self.current_call = None
        self._install()

    def _declare(self, cls, kind, key, obj, call):
        if not key:
            return
        table = self.decl[cls][kind]
        old = table.get(key)
        if old is not None and old is not obj:
            self.clashes.append((cls, kind, str(key), call))
        table[key] = obj

    def _install(self):
        m, run = self.m, self
        orig_alias = m.Unit.alias

        def alias(self_, name=None, symbol=None):
            orig_alias(self_, name=name, symbol=symbol)
            run._declare("Unit", "name", name, self_, run.current_call or "Unit.alias")
            run._declare("Unit", "symbol", symbol, self_, run.current_call or "Unit.alias")

        m.Unit.alias = alias
        orig_pinit = m.Prefix.__init__

        def pinit(self_, base, exponent, name=None, symbol=None):
            # naming an object that already carries *another* name is not a declaration the
            # property speaks about (a prefix has one name); naming an anonymous one is
            had_name = getattr(self_, "name", None) if getattr(self_, "_initialized", False) else None
            had_symbol = getattr(self_, "symbol", None) if getattr(self_, "_initialized", False) else None
            orig_pinit(self_, base, exponent, name, symbol)
            if getattr(self_, "base", None) != base or getattr(self_, "exponent", None) != exponent:
                # Prefix(base, 0, ...) is the identity prefix: not a declaration for it
                if (name and getattr(self_, "name", None) == name) or (symbol and getattr(self_, "symbol", None) == symbol):
                    run.clashes.append(("Prefix", "identity-adopted", str(name or symbol), "Prefix(base, 0)"))
                return
            if had_name in (None, name):
                run._declare("Prefix", "name", name, self_, run.current_call or "Prefix()")
            if had_symbol in (None, symbol):
                run._declare("Prefix", "symbol", symbol, self_, run.current_call or "Prefix()")

        m.Prefix.__init__ = pinit
        orig_dinit = m.Dimension.__init__

        def dinit(self_, exponents, name=None, symbol=None):
            had_name = getattr(self_, "name", None) if getattr(self_, "_initialized", False) else None
            orig_dinit(self_, exponents, name, symbol)
            if had_name in (None, name):
                run._declare("Dimension", "name", name, self_, run.current_call or "Dimension()")

        m.Dimension.__init__ = dinit
        orig_derive = m.Dimension.derive.__func__

        def derive(cls, dimension, name, symbol=None):
            r = orig_derive(cls, dimension, name, symbol)
            run._declare("Dimension", "name", name, dimension, run.current_call or "Dimension.derive")
            return r

        m.Dimension.derive = classmethod(derive)

    # ---- registry snapshot (by object identity)
    def snapshot(self):
        m = self.m
        snap = {}
        for cls in (m.Unit, m.Dimension, m.Prefix):
            n = cls.__name__
            snap[n + "._by_name"] = {k: id(v) for k, v in cls._by_name.items()}
            if hasattr(cls, "_by_symbol"):
                snap[n + "._by_symbol"] = {k: id(v) for k, v in cls._by_symbol.items()}
            snap[n + "._known"] = sorted(id(v) for v in cls._known.values())
        snap["Unit._base"] = sorted(id(u) for u in m.Unit._base)
        snap["Dimension._fundamental"] = [id(d) for d in m.Dimension._fundamental]
        snap["Unit.names"] = {id(u): (getattr(u, "names", None), getattr(u, "symbols", None)) for u in m.Unit._known.values()}
        snap["Dimension.names"] = {id(d): (getattr(d, "name", None), getattr(d, "symbol", None), len(d.exponents)) for d in m.Dimension._known.values()}
        snap["Prefix.names"] = {id(p): (getattr(p, "name", None), getattr(p, "symbol", None)) for p in m.Prefix._known.values()}
        return snap

    # ---- invariants
    def check(self, out, when):
        m = self.m
        for name, obj in self.decl["Unit"]["name"].items():
            try:
                public = m.Unit.named(name)
            except Exception:  # noqa
                public = None
            if public is not obj:
                out.fail("C19:binding:Unit:named()", f"{when}: unit name {name!r} was declared for {obj!r} but Unit.named({name!r}) gives {public!r}")
            if m.Unit._by_name.get(name) is not obj or name not in getattr(obj, "names", ()):
                out.fail("C19:binding:Unit:name", f"{when}: unit name {name!r} was declared for {obj!r} but resolves to {m.Unit._by_name.get(name)!r} / object reports {getattr(obj, 'names', None)}")
        for sym, obj in self.decl["Unit"]["symbol"].items():
            try:
                got = m.Unit.resolve_symbol(sym)
            except KeyError:
                got = None
            if m.Unit._by_symbol.get(sym) is not obj or got is not obj or sym not in getattr(obj, "symbols", ()):
                out.fail("C19:binding:Unit:symbol", f"{when}: unit symbol {sym!r} was declared for {obj!r} but resolves to {got!r}")
        for name, obj in self.decl["Dimension"]["name"].items():
            if m.Dimension.named(name) is not obj or obj.name != name:
                out.fail("C19:binding:Dimension:name", f"{when}: dimension name {name!r} was declared for {obj!r} but named() gives {m.Dimension.named(name)!r} and the object reports {obj.name!r}")
        for name, obj in self.decl["Prefix"]["name"].items():
            if m.Prefix._by_name.get(name) is not obj or obj.name != name:
                prior = "anonymous-first" if obj.name is None else "other"
                out.fail(f"C19:binding:Prefix:name:{prior}", f"{when}: prefix name {name!r} was declared for {obj!r} but _by_name gives {m.Prefix._by_name.get(name)!r} and the object reports {obj.name!r}")
        for sym, obj in self.decl["Prefix"]["symbol"].items():
            try:
                got = m.Prefix.resolve_symbol(sym)
            except KeyError:
                got = None
            if got is not obj or obj.symbol != sym:
                prior = "anonymous-first" if obj.symbol is None else "other"
                out.fail(f"C19:binding:Prefix:symbol:{prior}", f"{when}: prefix symbol {sym!r} was declared for {obj!r} but resolves to {got!r} and the object reports {obj.symbol!r}")
        # what a text resolves to is a function of the registries as they are now: exact symbol,
        # else the shortest registered prefix symbol followed by a registered unit symbol, else a
        # name (the documented order) -- whatever was looked up or declared before
        for text in LOOKUPS + OVERLAP_TEXTS:
            want = None
            if text in m.Unit._by_symbol:
                want = m.Unit._by_symbol[text]
            else:
                for i in range(1, len(text)):
                    if text[:i] in m.Prefix._by_symbol and text[i:] in m.Unit._by_symbol:
                        want = (m.Prefix._by_symbol[text[:i]], m.Unit._by_symbol[text[i:]])
                        break
                else:
                    want = m.Unit._by_name.get(text)
            try:
                got = m.Unit.resolve_symbol(text)
            except KeyError:
                got = None
            if isinstance(want, tuple):
                ok = got is not None and got.prefix is want[0] and dict(got.factors) == dict(want[1].factors) and got is want[0] * want[1]
            else:
                ok = got is want
            if not ok:
                out.fail("C19:lookup:not-a-function-of-the-registries", f"{when}: {text!r} resolves to {got!r}; the registries as they are now give {want!r}")
        for cls, kind, key, call in self.clashes:
            out.fail(f"C19:two-objects:{cls}:{kind}:{call}", f"{when}: {cls} {kind} {key!r} was declared for a second, different object by {call} without an error")
        self.clashes = []
        # a name / symbol reported by two different objects
        seen = {}
        for u in m.Unit._known.values():
            for n in getattr(u, "names", ()):
                if seen.setdefault(("Unit.name", n), u) is not u:
                    out.fail("C19:two-objects:Unit:name:reported", f"{when}: unit name {n!r} is reported by two objects")
            for s in getattr(u, "symbols", ()):
                if seen.setdefault(("Unit.symbol", s), u) is not u:
                    out.fail("C19:two-objects:Unit:symbol:reported", f"{when}: unit symbol {s!r} is reported by two objects")
        for d in m.Dimension._known.values():
            if d.name and seen.setdefault(("Dimension.name", d.name), d) is not d:
                out.fail("C19:two-objects:Dimension:name:reported", f"{when}: dimension name {d.name!r} is reported by two objects")
        for p in m.Prefix._known.values():
            if p.name and seen.setdefault(("Prefix.name", p.name), p) is not p:
                out.fail("C19:two-objects:Prefix:name:reported", f"{when}: prefix name {p.name!r} is reported by two objects")
            if p.symbol and seen.setdefault(("Prefix.symbol", p.symbol), p) is not p:
                out.fail("C19:two-objects:Prefix:symbol:reported", f"{when}: prefix symbol {p.symbol!r} is reported by two objects")


def _describe_registry(m):
    """name -> structural description, for import-order comparison"""
    d = {}
    for name, u in m.Unit._by_name.items():
        fac = sorted(((f.name or "?"), e) for f, e in u.factors.items())
        d["unit:" + name] = (fac, (u.prefix.base, u.prefix.exponent), tuple(u.dimension.exponents), tuple(sorted(u.names)), tuple(sorted(u.symbols)))
    for name, p in m.Prefix._by_name.items():
        d["prefix:" + name] = (p.base, p.exponent, p.name, p.symbol)
    for sym, p in m.Prefix._by_symbol.items():
        d["prefix-symbol:" + sym] = (p.base, p.exponent)
    for sym, u in m.Unit._by_symbol.items():
        d["unit-symbol:" + sym] = u.name
    for name, dim in m.Dimension._by_name.items():
        d["dimension:" + name] = (tuple(dim.exponents), dim.name, dim.symbol)
    return d


REFERENCE = None


def _reference():
    global REFERENCE
    if REFERENCE is None:
        w = World(["measured.systems"])
        REFERENCE = _describe_registry(w.m)
    return REFERENCE


def run_case(case) -> core.Outcome:
    out = core.Outcome()
    try:
        steps = case["steps"]
        for s in steps:
            if s[0] not in OPS or not all(isinstance(x, int) and not isinstance(x, bool) for x in s[1:5]):
                raise ValueError
    except Exception:
        out.invalid = True
        return out
    ref = _reference()
    r = Run()
    m = r.m
    dims = [m.Length, m.Time, m.Mass, m.Area, m.Speed]
    ref_width = len(m.Length.exponents)
    units = [m.One]
    anon_prefixes = []
    named_prefixes = {}
    interfering = False
    inconsistent_declaration = False
    named_something = False
    nontrivial_keys = set()
    r.check(out, "after the core import")
    for op, a, b, c, d in steps:
        name, sym = NAMES[a % len(NAMES)], SYMS[b % len(SYMS)]
        if (name in SHIPPED_NAMES or sym in SHIPPED_SYMS) and op not in ("import", "anon_dim", "anon_prefix", "anon_unit"):
            # a history may collide with shipped names only once they exist: taking them
            # first would merely make the later import fail, which is not this property
            r.w.load("si")
            r.check(out, "after importing si")
        before = r.snapshot()
        r.current_call = None
        raised = None
        argclass = ("dup" if name in ("meter", "kilo", "length", "second") else "space" if " " in name else "empty" if not name else "fresh") + "/" + (
            "dup" if sym in ("m", "k", "L", "s", "d") else "space" if " " in sym else "empty" if not sym else "fresh")
        if op in ("name_dim_ctor", "define_dim", "name_prefix", "define_unit", "derive_unit", "alias", "alias_bad"):
            named_something = True
        try:
            if op == "anon_dim":
                dim = m.Length ** (c % 5 + 2) / m.Time ** (d % 4)
                dims.append(dim)
            elif op == "anon_dim_doc":
                # a dimension this process has never computed arrives in a document (JSON
                # object, or a pickle written elsewhere): anonymous construction by another door
                exps = list(m.Length.exponents)
                exps[1 % len(exps)] = c % 7 + 5
                exps[2 % len(exps)] = -(d % 5) - 3
                k = a % 3 + 1
                dim = m.Dimension.__from_json__({"__measured__": "Dimension", "name": None, "symbol": None, "exponents": [x * k for x in exps]})
                dims.append(dim)
                nontrivial_keys.add(("anon_dim_doc",))
            elif op == "stale_dim_doc":
                # the document dates from before this history's Dimension.define calls: it lists as
                # many exponents as there were fundamental dimensions when the core was imported
                exps = [0] * ref_width
                exps[1 % ref_width] = c % 7 + 5
                exps[2 % ref_width] = -(d % 5) - 3
                dim = m.Dimension.__from_json__({"__measured__": "Dimension", "name": None, "symbol": None, "exponents": exps})
                dims.append(dim)
                dims[:] = dims[-1:] + dims[:-1]
                nontrivial_keys.add(("stale_dim_doc",))
            elif op == "name_dim_ctor":
                # constructor given a name for a dimension that may already exist anonymously
                target = dims[c % len(dims)]
                r.current_call = "Dimension()"
                if name in ("length", "meter", "kilo", "second", "", "vf e"):
                    name = "vfdim" + str(a % 3)
                m.Dimension(tuple(target.exponents), name=name or None, symbol=sym or None)
                nontrivial_keys.add(("name_dim_ctor", "anonymous-first" if target.name is None else "named"))
            elif op == "derive_dim":
                target = dims[c % len(dims)]
                if target.name is None or target.name == name:
                    # (a dimension carries one name: re-deriving a named one under another
                    # name is a rename, not a declaration this property speaks about)
                    r.current_call = "Dimension.derive"
                    named_something = True
                    m.Dimension.derive(target, name, sym or None)
                    nontrivial_keys.add(("derive_dim", argclass))
            elif op == "define_dim":
                if d % 4 == 0:
                    r.current_call = "Dimension.define"
                    nm = name if name not in ("meter", "kilo", "second") else "vfdimx"
                    m.Dimension.define(nm, sym)
                    interfering = True
            elif op == "anon_prefix":
                base = 10 if a % 2 == 0 else 2
                e = (b % 100) - 50
                p = m.Prefix(base, e)
                anon_prefixes.append((base, e))
                if (base == 10 and -30 <= e <= 30) or (base == 2 and e in (3, 10, 20, 30, 40, 50, 60, 70, 80)):
                    nontrivial_keys.add(("anon_prefix", "shipped-exponent"))
            elif op == "name_prefix":
                r.current_call = "Prefix()"
                if anon_prefixes and c % 2 == 0:
                    base, e = anon_prefixes[d % len(anon_prefixes)]
                    nontrivial_keys.add(("name_prefix", "anonymous-first"))
                else:
                    base, e = 7, (d % 10)  # e == 0 denotes the identity prefix
                nm = name if name in ("vfa", "vfb", "vfc", "vfd", "kilo") else "vfp" + str(a % 3)
                sy = sym if sym in ("va", "vb", "vc", "vd", "k", "d") else "vq" + str(b % 3)
                if nm == "kilo" or sy in ("k", "d"):
                    r.w.load("si")
                # a prefix may get its name and its symbol in two separate declarations
                prev = named_prefixes.get((base, e))
                if prev is not None:
                    nm = prev[0] or nm
                    sy = prev[1] or sy
                part = (a + b + c) % 4
                kw = {}
                if part != 2:
                    kw["name"] = nm
                if part != 1:
                    kw["symbol"] = sy
                m.Prefix(base, e, **kw)
                if e != 0:
                    named_prefixes[(base, e)] = (kw.get("name") or (prev[0] if prev else None), kw.get("symbol") or (prev[1] if prev else None))
                    if prev is not None:
                        nontrivial_keys.add(("name_prefix", "second-declaration-completes-it"))
            elif op == "define_unit":
                r.current_call = "Unit.define"
                u = m.Unit.define(dims[c % len(dims)], name, sym)
                units.append(u)
                nontrivial_keys.add(("define_unit", argclass))
            elif op == "anon_unit":
                x, y = units[c % len(units)], units[d % len(units)]
                units.append(x * y if a % 2 else x / y**2)
            elif op == "derive_unit":
                r.current_call = "Unit.derive"
                m.Unit.derive(units[c % len(units)], name, sym)
                nontrivial_keys.add(("derive_unit", argclass))
            elif op == "alias":
                r.current_call = "Unit.alias"
                which = d % 3
                units[c % len(units)].alias(name=name if which != 1 else None, symbol=sym if which != 0 else None)
                nontrivial_keys.add(("alias", argclass))
            elif op == "alias_bad":
                r.current_call = "Unit.alias"
                units[c % len(units)].alias(name=name or "vfz", symbol=BadSymbol(sym or "vz"))
            elif op == "scale":
                # Dimension.scale defines a unit and then declares its zero point; the zero may be
                # a proper quantity, a quantity of another dimension, or not a quantity at all
                r.current_call = "Dimension.scale"
                named_something = True
                dim = dims[c % len(dims)]
                zero = [2.5 * units[d % len(units)], 3 * m.One, 5, None][(a + d) % 4]
                u = dim.scale(zero, name, sym)
                units.append(u)
                if isinstance(zero, m.Quantity) and zero.unit.dimension is not dim:
                    # the library accepted a zero point of another dimension: the conversion
                    # graph now relates two dimensions, and whatever a later import does with it
                    # is the consequence of this history's own inconsistent declaration
                    inconsistent_declaration = True
                nontrivial_keys.add(("scale", argclass, type(zero).__name__))
            elif op == "overlap":
                named_something = True
                import itertools

                # one declaration, or (b % 3 == 0) all four in the order given by c, each followed
                # by look-ups of the overlapping texts
                todo = list(list(itertools.permutations(range(4)))[c % 24]) if b % 3 == 0 else [a % 5]
                which = "script" if b % 3 == 0 else a % 5
                for one in todo:
                    if one == 0 and "vfov y" not in m.Unit._by_name:
                        units.append(m.Unit.define(m.Length, "vfov y", "y"))
                    elif one == 1 and "vfov xy" not in m.Unit._by_name:
                        units.append(m.Unit.define(m.Mass, "vfov xy", "xy"))
                    elif one == 2:
                        if d % 2:
                            m.Prefix(7, 5) * m.Prefix(7, 6)   # the prefix exists anonymously before it is named
                        m.Prefix(7, 11, name="vfov long", symbol="vqx")
                    elif one == 3:
                        if d % 3 == 1:
                            m.Prefix(7, 12)
                        m.Prefix(7, 12, name="vfov short", symbol="vq")
                    for text in OVERLAP_TEXTS:
                        for fn in (m.Unit.resolve_symbol, m.Unit.parse):
                            try:
                                fn(text)
                            except Exception:
                                pass
                nontrivial_keys.add(("overlap", str(which)))
            elif op == "lookup":
                # resolving / parsing a text *before* something declares it must not influence
                # what it resolves to afterwards
                for text in (LOOKUPS[a % len(LOOKUPS)], LOOKUPS[b % len(LOOKUPS)]):
                    for fn in (m.Unit.resolve_symbol, m.Unit.parse):
                        try:
                            fn(text)
                        except Exception:
                            pass
                nontrivial_keys.add(("lookup-before-declaration",))
            elif op == "import":
                r.current_call = None
                mod = r.w.load(MODS[a % len(MODS)])
                if len(units) < 6:
                    for nm in ("meter", "second", "gram"):
                        if nm in m.Unit._by_name and m.Unit._by_name[nm] not in units:
                            units.append(m.Unit._by_name[nm])
        except Exception as e:  # noqa
            raised = e
        r.current_call = None
        out.classes.append(f"op:{op}" + (":raised" if raised is not None else ""))
        if raised is not None and op == "import" and inconsistent_declaration:
            out.classes.append("import-after-inconsistent-declaration:raised")
            break
        elif raised is not None and op == "import":
            out.fail(f"C19:import-raised:{type(raised).__name__}@{core.innermost_frame(raised)}", f"importing measured.{MODS[a % len(MODS)]} raised {type(raised).__name__}: {raised}")
        elif raised is not None:
            nontrivial_keys.add((op, "raised", argclass))
            after = r.snapshot()
            if after != before:
                changed = sorted(k for k in before if before[k] != after.get(k))
                out.fail(f"C19:failed-call-mutated:{op}", f"{op}({name!r}, {sym!r}) raised {type(raised).__name__}: {raised} but changed {changed}")
        r.check(out, f"after {op}({name!r}, {sym!r})")
        if out.failures:
            break
    if inconsistent_declaration:
        out.classes.append("history:cross-dimension-zero-accepted")
    if not out.failures and not inconsistent_declaration:
        # import everything, in whatever order is left, and compare with the default order
        try:
            r.w.load("measured.systems")
        except Exception as e:  # noqa
            out.fail(f"C19:import-after-history:{type(e).__name__}@{core.innermost_frame(e)}", f"importing the shipped modules after the history raised {type(e).__name__}: {e}")
        r.check(out, "after importing all shipped modules")
        if not out.failures:
            got = _describe_registry(m)
            if not interfering and not named_something:
                diff = sorted(k for k in ref if got.get(k) != ref[k])
                # bindings the history itself took (a generated unit named/symbolled like a shipped one)
                own = {n for n in NAMES} | {s for s in SYMS}
                diff = [k for k in diff if k.split(":", 1)[1] not in own]
                if diff:
                    first = diff[0]
                    out.fail(f"C19:import-order:{first.split(':')[0]}", f"registry entry {first} is {got.get(first)!r}; with the default import order it is {ref[first]!r} ({len(diff)} entries differ)")
                out.classes.append("compared-with-default-import-order")
    if nontrivial_keys:
        out.nontrivial = "|".join(sorted(":".join(k) for k in nontrivial_keys))
        out.sample = {"steps": [[s[0], NAMES[s[1] % len(NAMES)], SYMS[s[2] % len(SYMS)]] for s in steps]}
    elif steps and steps[0][0] == "import":
        out.nontrivial = f"import-first:{MODS[steps[0][1] % len(MODS)]}"
    return out


def still_fails(case, bucket):
    return any(f.bucket == bucket for f in run_case(case).failures)


def vacuity(col):
    need = ["compared-with-default-import-order", "op:name_prefix", "op:define_unit:raised", "op:alias:raised", "op:alias_bad:raised"]
    missing = [k for k in need if not col.classes.get(k)]
    return missing or None
