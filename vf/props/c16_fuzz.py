"""atheris entry point of C16 (run by vf.props.c16.post in a subprocess):

    python -m vf.props.c16_fuzz <corpus dir> -runs=N -seed=S ...

bytes -> str by UTF-8 (errors replaced) -> vf.props.c16.check_text.  measured._parser and lark
are imported under coverage instrumentation.  The target never raises: disagreeing inputs are
appended at once to $C16_FUZZ_OUT.fail and the campaign goes on; statistics are written to
$C16_FUZZ_OUT every 2000 executions and when the requested number of runs is reached
(libFuzzer leaves through _exit, atexit handlers do not run).
"""
from __future__ import annotations

import json
import os
import sys


def main():
    import atheris

    with atheris.instrument_imports(include=["lark", "measured._parser"]):
        import lark  # noqa
        import importlib

        shipped_mod = None
        try:
            shipped_mod = importlib.import_module("measured._parser")
        except Exception:
            pass  # c16.setup records the load failure

    from vf.props import c16

    c16.setup("quick", lark_module=lark, shipped_module=shipped_mod)
    out_path = os.environ["C16_FUZZ_OUT"]
    runs = int(os.environ.get("C16_FUZZ_RUNS", "0"))
    expect = os.environ.get("C16_FUZZ_EXPECT_DIR")
    if expect and os.path.abspath(expect) != c16.S["dir"]:
        raise SystemExit(f"c16_fuzz: measured resolves to {c16.S['dir']}, the parent checked {expect}")
    if c16.S.get("fresh") is None or c16.S.get("shipped") is None:
        raise SystemExit("c16_fuzz: a side did not load")

    from collections import Counter

    state = {"n": 0, "classes": Counter(), "nontrivial": {}, "failing": []}
    fail_fh = open(out_path + ".fail", "a", encoding="utf-8")

    def dump():
        tmp = out_path + ".tmp"
        with open(tmp, "w", encoding="utf-8") as fh:
            json.dump(
                {
                    "executions": state["n"], "classes": dict(state["classes"]), "nontrivial": state["nontrivial"],
                    "failing": state["failing"][:200], "instrumented": ["lark", "measured._parser"],
                },
                fh, ensure_ascii=False,
            )
        os.replace(tmp, out_path)

    check = c16.check_text

    def one(data):
        text = data.decode("utf-8", "replace")
        try:
            fails, key, classes = check(text)
        except Exception as e:  # harness trouble: record as such, keep going
            fails, key, classes = [("harness", repr(e))], None, ["harness-exception:" + type(e).__name__]
        state["n"] += 1
        state["classes"].update(classes)
        if key is not None and key not in state["nontrivial"]:
            state["nontrivial"][key] = text
        if fails:
            if len(state["failing"]) < 200 and text not in state["failing"]:
                state["failing"].append(text)
                fail_fh.write(json.dumps({"s": text, "buckets": [b for b, _ in fails]}, ensure_ascii=False) + "\n")
                fail_fh.flush()
        if state["n"] % 2000 == 0 or state["n"] == runs or state["n"] == runs + 1:
            dump()

    dump()
    atheris.Setup(sys.argv, one)
    atheris.Fuzz()


if __name__ == "__main__":
    main()
