"""C12 -- comparisons are coherent: symmetric ==, physical total order, hash agrees.

(q)  lists of quantities of one dimension in D_ok-convertible units/prefixes, with
     equal-by-construction members; exact SI values (size oracle) decide order and ties.
(x)  mixed pairs among Quantity / Level / Measurement / approximately(): (x == y) is (y == x).
"""
from __future__ import annotations

from decimal import Decimal
import math
from fractions import Fraction

from hypothesis import strategies as st

from .. import convgen, core, domain

ID = "C12"
RULE = (
    "Hypothesis: (q) 2-5 quantities of one dimension over D_ok triples of shipped units with prefixes and "
    "int/float/Decimal magnitudes; one third of the members are equal-by-construction copies of another "
    "(same unit with int/float/Decimal spelling of the magnitude, integer prefix re-expression, oracle "
    "re-expression in another unit); clauses: reflexive, symmetric ==, trichotomy, <=/>= mirroring, order = "
    "exact order, sorted() = exact sort (away from ties), hash equal whenever == is observed True. "
    "(x) pairs among Quantity, Level (dB/Np/oct over W, V, Pa references), Measurement (nested, overlapping, "
    "disjoint, touching intervals; zero uncertainty) and approximately(): == symmetric in both orders. "
    "Non-trivial: operands in different units or of different classes; distinct = (family, classes, units)."
)
ASSUMPTIONS = [
    "ties: exact SI values closer than 1e-5 x total degree (different base units) or 1e-12 (same base units) relative; ties get only the hash clause and reflexivity",
    "hash clause applies whenever the library itself reports a == b",
    "symmetry of == for Measurement/Level pairs is not asserted when an interval end point of one is within the tie tolerance of an end point of the other",
]

C = None
LEN = ["meter", "foot", "inch", "mile", "yard"]
PFX = ["", "kilo", "milli", "centi"]
POW = ["watt"]


def setup(tier):
    global C
    if C is None:
        C = convgen.ctx()


def budget(tier):
    return {"examples": 2500, "shards": 1} if tier == "quick" else {"examples": 10000, "shards": 16}


def strategy(tier):
    c = C
    TRI = convgen.dok_triple(c)
    MAG = convgen.magnitudes()
    SMALL = st.sampled_from([0, 1, 2, 3, 5, 10, 12, 100, 1000, -1, -5])
    COPY = st.sampled_from(["int-float-dec", "prefix", "reexpress", "nudge"])
    POSF = st.one_of(st.sampled_from([0, 0, 1, 2, 0.5, 0.1, 3, 10]), st.floats(min_value=0, max_value=100, allow_nan=False))
    VAL = st.one_of(st.integers(-20, 20), st.sampled_from([0.5, 1.5, 2.5, 10.0, 100.0]), st.floats(min_value=-100, max_value=100, allow_nan=False))

    info = [n for n in ("bit", "byte", "shannon", "nibble") if n in c.units]
    INFO_T = st.builds(lambda p, u: [[p, u, 1]], st.sampled_from([""] + c.prefixes), st.sampled_from(info))

    @st.composite
    def qlist(draw):
        if draw(convgen.INT10) < 2:
            # information units under SI and IEC prefixes (mixed prefix bases on one base unit)
            A, B, Cu = draw(INFO_T), draw(INFO_T), draw(INFO_T)
        else:
            A, B, Cu = draw(TRI)
        units = [A, B, Cu]
        n = draw(st.integers(2, 5))
        items = []
        for i in range(n):
            if items and draw(convgen.INT10) < 4:
                items.append({"copy": draw(st.integers(0, len(items) - 1)), "how": draw(COPY), "u": draw(st.integers(0, 2))})
            else:
                items.append({"u": draw(st.integers(0, 2)), "mag": draw(MAG if draw(convgen.INT10) < 6 else st.builds(lambda v: {"t": "int", "v": v}, SMALL))})
        return {"f": "q", "units": units, "items": items}

    @st.composite
    def operand(draw):
        kind = draw(st.sampled_from(["q", "m", "m", "m", "approx", "level"]))
        u = [draw(st.sampled_from(PFX)), draw(st.sampled_from(LEN)), 1]
        if kind == "level":
            return {"kind": "level", "log": draw(st.sampled_from(["decibel", "bel", "neper", "octave"])),
                    "ref": draw(st.sampled_from([1, 1, 2, 0.001])), "refp": draw(st.sampled_from(["", "milli", "kilo"])), "v": draw(VAL)}
        d = {"kind": kind, "u": u, "v": draw(VAL)}
        if kind == "m":
            d["s"] = draw(POSF)
        if kind == "approx":
            d["w"] = draw(st.sampled_from([1e-7, 1e-3, 0.1, 0.5, 0]))
        return d

    @st.composite
    def xpair(draw):
        x, y = draw(operand()), draw(operand())
        if draw(convgen.INT10) < 5:
            # force one family: lengths only, or power-levels against power quantities
            pass
        return {"f": "x", "x": x, "y": y}

    TVAL = st.one_of(st.sampled_from([0, 0, 0.0, 273.15, -273.15, 32, -40, 100, 459.67, -459.67, 491.67, 255.372, 1, -1]),
                     st.integers(-500, 1000), st.floats(min_value=-500, max_value=2000, allow_nan=False))
    TSCALE = st.sampled_from(["kelvin", "celsius", "fahrenheit", "Rankine"])

    TPFX = st.sampled_from(["", "", "", "milli", "kilo", "micro", "mega", "centi", "nano"])
    t_linear = sorted(n for n, u in c.snap.units.items() if u.dimension is c.m.Temperature and n not in T_ZERO)

    @st.composite
    def temps(draw):
        n = draw(st.integers(2, 4))
        if draw(convgen.INT10) < 5:
            return {"f": "t", "items": [[draw(TSCALE), draw(TVAL)] for _ in range(n)]}
        # the same temperatures read on prefixed scales and in the other shipped temperature
        # units (planck temperature): [unit, reading, prefix]
        items = []
        for _ in range(n):
            unit = draw(st.sampled_from(t_linear)) if t_linear and draw(convgen.INT10) < 3 else draw(TSCALE)
            pfx = draw(TPFX)
            r = Fraction(draw(TVAL))   # the reading without the prefix (kelvins for the linear units)
            pv = Fraction(c.snap.prefixes[pfx].base) ** c.snap.prefixes[pfx].exponent if pfx else Fraction(1)
            size = Fraction(1) if unit in T_ZERO else c.sizes.unit_size(c.snap.units[unit])
            v = r / (pv * size)
            items.append([unit, int(v) if v.denominator == 1 and abs(v) < 10**15 else float(v), pfx])
        return {"f": "t", "items": items}

    from .. import synth

    SYN = synth.world_case(queries=4)

    @st.composite
    def synlist(draw):
        """pairs in exactly-consistent synthetic worlds: the same quantity in another unit, then
        moved by a few parts in 10**10 (decided), or by nothing (a tie)"""
        case = draw(SYN)
        return {"f": "s", "world": case["world"], "queries": case["queries"],
                "nudge": [draw(st.sampled_from([0.0, 1e-10, -1e-10, 3e-11, -2e-10, 1e-6, -0.5])) for _ in case["queries"]]}

    @st.composite
    def mix(draw):
        sel = draw(convgen.INT100)
        if sel < 10:
            return draw(synlist())
        if sel < 55:
            return draw(qlist())
        if sel < 65:
            return draw(temps())
        return draw(xpair())

    return mix()


# ---------------------------------------------------------------- (q) quantity lists


def _si(c, q):
    s = c.sizes.unit_size(q.unit, approx_mixed=True)
    return None if s is None else Fraction(q.magnitude) * s


def _build_items(c, case):
    m = c.m
    units = [convgen.build(c, t) for t in case["units"]]
    if any(u.dimension is not units[0].dimension for u in units):
        return None
    qs, meta = [], []
    for it in case["items"]:
        if "copy" in it:
            src = qs[it["copy"]]
            how = it["how"]
            if how == "int-float-dec":
                v = src.magnitude
                try:
                    alts = [v]
                    if Fraction(v).denominator == 1 and abs(Fraction(v)) < 10**15:
                        alts = [int(Fraction(v)), float(Fraction(v)), Decimal(int(Fraction(v)))]
                    elif float(Fraction(v)) == Fraction(v):
                        alts = [float(Fraction(v)), Decimal(float(Fraction(v))), float(Fraction(v))]
                    if isinstance(v, Decimal) or (it["u"] // 3) % 2:
                        # the same number as a Decimal written with other exponents (2.5, 2.50, 25E-1)
                        d0 = v if isinstance(v, Decimal) else Decimal(int(Fraction(v))) if Fraction(v).denominator == 1 else Decimal(float(Fraction(v)))
                        if Fraction(d0) == Fraction(v) and d0.is_finite():
                            alts = alts + [d0.normalize(), d0 * Decimal("1.00"), d0.normalize() * Decimal("1.0000")]
                    new = m.Quantity(alts[(it["u"]) % len(alts)], src.unit)
                except Exception:
                    new = src
            elif how == "nudge":
                # the same unit, a few parts in 10**10 or 10**11 away: not equal, and ordered
                v = src.magnitude
                d = [1e-10, -1e-10, 3e-11, -2e-10][it["u"] % 4]
                try:
                    nv = float(v) * (1 + d)
                    new = m.Quantity(nv, src.unit) if nv != float(v) and math.isfinite(nv) else src
                    if new is not src and (it["u"] // 4) % 2:
                        # ... and written under another prefix of the same unit
                        new = m.Quantity(nv * 1000, c.snap.prefixes["milli"] * src.unit)
                except (OverflowError, ValueError):
                    new = src
            elif how == "prefix":
                # 1 km <-> 1000 m style: move an integer power of ten between magnitude and prefix
                new = src
                v = src.magnitude
                if isinstance(v, int) and not isinstance(v, bool):
                    if it["u"] % 2 == 0:
                        new = m.Quantity(v * 1000, c.snap.prefixes["milli"] * src.unit)
                    elif v % 1000 == 0:
                        new = m.Quantity(v // 1000, c.snap.prefixes["kilo"] * src.unit)
                    else:
                        new = m.Quantity(v * 100, c.snap.prefixes["centi"] * src.unit)
            else:
                tgt = units[it["u"] % 3]
                a, b = c.sizes.unit_size(src.unit), c.sizes.unit_size(tgt)
                if a is None or b is None or not c.sizes.determined(src.unit, tgt):
                    new = src
                else:
                    fv = Fraction(src.magnitude) * a / b
                    try:
                        val = int(fv) if fv.denominator == 1 and abs(fv) < 10**15 and isinstance(src.magnitude, int) else float(fv)
                        new = m.Quantity(val, tgt)
                    except OverflowError:
                        new = src
            qs.append(new)
            meta.append("copy:" + how)
        else:
            qs.append(m.Quantity(convgen.mag_value(it["mag"]), units[it["u"] % 3]))
            meta.append("fresh")
    return units, qs, meta


def _run_q(case, out):
    c = convgen.ctx()
    m = c.m
    try:
        if not all(convgen.valid_terms(c, t) for t in case["units"]) or len(case["units"]) != 3:
            raise ValueError
        built = _build_items(c, case)
    except Exception:
        out.invalid = True
        return
    if built is None:
        out.invalid = True
        return
    units, qs, meta = built
    classes = sorted(set(domain.pair_classes(units[0], units[1], c.One)) | set(domain.pair_classes(units[0], units[2], c.One)))
    if classes:
        out.classes.append("q:outside-D_ok")  # shrinker only
        return
    if not all(c.sizes.determined(units[0], u) for u in units[1:]):
        out.classes.append("q:undetermined")
        return
    for q in qs:
        if not convgen.range_ok(c.sizes, q.magnitude, q.unit):
            out.inconclusive = "float-range"
            return
    si = [_si(c, q) for q in qs]
    if any(s is None for s in si):
        out.invalid = True
        return
    out.classes.append("q:D_ok")
    deg = max(convgen.unit_degree(c, u) for u in units)
    all_clear = True
    for i, a in enumerate(qs):
        # reflexive
        try:
            if not (a == a):
                out.fail("C12:reflexive", f"{a!r} == itself is False")
        except Exception as e:  # noqa
            out.fail(f"C12:eq-raises:{type(e).__name__}@{core.innermost_frame(e)}", f"{a!r} == itself raised {e!r}")
        for j, b in enumerate(qs):
            if j <= i:
                continue
            same_base = set(a.unit.factors) == set(b.unit.factors)
            # same base units: only prefixes are multiplied in (rounding ~1e-16), so pairs 1e-12
            # apart are decided; across declared equivalences the shipped data's own consistency
            tol = Fraction(1, 10**12) if same_base else Fraction(1, 10**5) * max(2 * deg, 1)
            scale = max(abs(si[i]), abs(si[j]))
            tie = abs(si[i] - si[j]) <= tol * scale
            # comparing converts one operand into the other's unit: a converted magnitude that
            # underflows or overflows makes the pair a float-range case, not a decided one
            sizes_ij = (c.sizes.unit_size(a.unit, approx_mixed=True), c.sizes.unit_size(b.unit, approx_mixed=True))
            for sv in (si[i], si[j]):
                for su in sizes_ij:
                    if sv != 0 and su and not (Fraction(1, 10**290) < abs(sv / su) < Fraction(10) ** 290):
                        tie = True
            if tie:
                all_clear = False
            res = {}
            raised = False
            for name, fn in (("ab==", lambda: a == b), ("ba==", lambda: b == a), ("a<b", lambda: a < b), ("a>b", lambda: a > b),
                             ("a<=b", lambda: a <= b), ("b>=a", lambda: b >= a), ("b<a", lambda: b < a), ("a!=b", lambda: a != b)):
                try:
                    res[name] = fn()
                except TypeError:
                    raised = True
                    out.classes.append("q:TypeError")
                except Exception as e:  # noqa
                    raised = True
                    out.classes.append(f"q:raised:{type(e).__name__}")  # C07's business
            # hash clause: whenever == is observed
            for name in ("ab==", "ba=="):
                if res.get(name) is True and hash(a) != hash(b):
                    if a.unit is not b.unit:
                        kind = "different-unit"
                    elif Fraction(a.magnitude) == Fraction(b.magnitude):
                        # the same number (written as int, float or Decimal) of the same unit
                        kind = "same-unit-same-number"
                    elif a.unit.prefix is not m.IdentityPrefix:
                        kind = "same-unit-prefixed"  # == compares the un-prefixed (rounded) magnitudes
                    else:
                        kind = "same-unit-unprefixed"
                    out.fail(f"C12:hash:{kind}", f"{a!r} == {b!r} but hashes differ")
            out.classes.append("q:pair-tie" if tie else "q:pair-ordered")
            if tie and res.get("ab==") is True:
                out.classes.append("q:observed-equal")
            if not raised and tie:
                if res["ab=="] is True and (res["a<b"] is True or res["a>b"] is True):
                    out.fail("C12:tie:eq-and-ordered", f"{a!r} vs {b!r}: == is True and so is {'<' if res['a<b'] else '>'}")
                # (a<=b against b>=a is not demanded of ties: the two convert in opposite directions)
            if raised or tie:
                continue
            lt = si[i] < si[j]
            if res["ab=="] is not False or res["ba=="] is not False:
                out.fail("C12:eq:order", f"{a!r} == {b!r} reported {res['ab==']}/{res['ba==']} but exact values differ: {float(si[i])!r} vs {float(si[j])!r}")
            if res["ab=="] is not res["ba=="]:
                out.fail("C12:eq:symmetry", f"{a!r} == {b!r} is {res['ab==']} but reversed {res['ba==']}")
            if res["a!=b"] is not (not res["ab=="]):
                out.fail("C12:ne", f"{a!r} != {b!r} is {res['a!=b']} while == is {res['ab==']}")
            if res["a<b"] is not lt or res["a>b"] is not (not lt) or res["b<a"] is not (not lt):
                out.fail("C12:order:physical", f"{a!r} vs {b!r}: < {res['a<b']}, > {res['a>b']}, reversed < {res['b<a']}; exact values {float(si[i])!r} vs {float(si[j])!r}")
            if sum(1 for k in ("a<b", "ab==", "a>b") if res[k]) != 1:
                out.fail("C12:trichotomy", f"{a!r} vs {b!r}: <,==,> = {res['a<b']},{res['ab==']},{res['a>b']}")
            if res["a<=b"] is not res["b>=a"] or res["a<=b"] is not (res["a<b"] or res["ab=="]):
                out.fail("C12:le-ge-mirror", f"{a!r} vs {b!r}: a<=b {res['a<=b']}, b>=a {res['b>=a']}, a<b {res['a<b']}, a==b {res['ab==']}")
    if all_clear and len(qs) >= 3:
        try:
            got = sorted(qs)
            want = [q for _, _, q in sorted(zip(si, range(len(qs)), qs), key=lambda t: (t[0], t[1]))]
            if [id(q) for q in got] != [id(q) for q in want]:
                out.fail("C12:sorted", f"sorted({qs!r}) = {got!r}; physical order is {want!r}")
            out.classes.append("q:sorted-checked")
        except TypeError:
            out.classes.append("q:TypeError")
    if len({id(q.unit) for q in qs}) > 1:
        out.nontrivial = "q|" + "|".join(sorted({str(q.unit) for q in qs}))
        out.sample = {"family": "quantities", "items": [repr(q.magnitude) + " " + str(q.unit) for q in qs], "construction": meta}


# ---------------------------------------------------------------- (x) mixed classes


def _operand(c, spec):
    """-> (object, class name, [lower, upper] exact SI interval or None, unit-key)"""
    m = c.m
    kind = spec["kind"]
    if kind == "level":
        logs = {"decibel": m.Decibel, "bel": m.Bel, "neper": m.Neper, "octave": m.Octave}
        ref = spec["ref"] * (c.snap.prefixes[spec["refp"]] * c.units["watt"])
        lu = logs[spec["log"]][ref]
        v = spec["v"]
        if not isinstance(v, (int, float)) or isinstance(v, bool) or abs(v) > 150:
            raise ValueError
        return m.Level(v, lu), "Level", None, "watt"
    p, uname, e = spec["u"]
    if uname not in LEN or p not in PFX or e != 1:
        raise ValueError
    unit = c.snap.prefixes[p] * c.units[uname]
    v = spec["v"]
    if isinstance(v, bool) or not isinstance(v, (int, float)) or v != v or abs(v) > 1e6:
        raise ValueError
    q = m.Quantity(v, unit)
    size = c.sizes.unit_size(unit)
    if kind == "q":
        return q, "Quantity", [Fraction(v) * size] * 2, uname
    if kind == "m":
        s = spec["s"]
        if isinstance(s, bool) or not isinstance(s, (int, float)) or not (0 <= s <= 1e6):
            raise ValueError
        return m.Measurement(q, s), "Measurement", [(Fraction(v) - Fraction(s)) * size, (Fraction(v) + Fraction(s)) * size], uname
    if kind == "approx":
        w = spec["w"]
        if isinstance(w, bool) or not isinstance(w, (int, float)) or not (0 <= w <= 1):
            raise ValueError
        unc = abs(Fraction(v if v else 1.0) * Fraction(w))
        return m.approximately(q, w), "approximately", [(Fraction(v) - unc) * size, (Fraction(v) + unc) * size], uname
    raise ValueError(kind)


def _run_x(case, out):
    c = convgen.ctx()
    try:
        x, cx, ix, ux = _operand(c, case["x"])
        y, cy, iy, uy = _operand(c, case["y"])
    except Exception:
        out.invalid = True
        return
    if cx == "Quantity" and cy == "Quantity":
        out.classes.append("x:both-plain")  # covered by (q)
        return
    out.classes.append(f"x:{cx}-{cy}")
    # ties: an end point of one interval within tolerance of an end point of the other
    tie = False
    if ix is not None and iy is not None:
        tol = Fraction(1, 10**9) if ux == uy else Fraction(1, 10**5) * 2
        scale = max(abs(v) for v in ix + iy) or Fraction(1)
        for a in ix:
            for b in iy:
                if a != b and abs(a - b) <= tol * scale:
                    tie = True
                if a == b and (ux != uy):
                    tie = True
    res = []
    for l, r in ((x, y), (y, x)):
        try:
            res.append(bool(l == r))
        except Exception as e:  # noqa
            res.append(f"raised {type(e).__name__}@{core.innermost_frame(e)}")
    out.classes.append("x:tie" if tie else "x:clear")
    if isinstance(res[0], str) or isinstance(res[1], str):
        if res[0] != res[1]:
            out.fail(f"C12:x-symmetry:raises:{cx}-{cy}", f"{x!r} == {y!r} -> {res[0]}; reversed -> {res[1]}")
    elif res[0] is not res[1] and not tie:
        shape = "other"
        if ix is not None and iy is not None:
            if (ix[0] < iy[0] and iy[1] < ix[1]) or (iy[0] < ix[0] and ix[1] < iy[1]):
                shape = "nested-intervals"
            elif ix[1] < iy[0] or iy[1] < ix[0]:
                shape = "disjoint-intervals"
            else:
                shape = "overlapping-intervals"
        out.fail(f"C12:x-symmetry:{shape}", f"({x!r} == {y!r}) is {res[0]} but ({y!r} == {x!r}) is {res[1]}")
    if res[0] is True:
        out.classes.append("x:equal")
    out.nontrivial = f"x|{cx}|{cy}|{ux}|{uy}|{case['x'].get('u', [''])[0]}|{case['y'].get('u', [''])[0]}"
    out.sample = {"family": "mixed", "x": repr(x), "y": repr(y), "x==y": res[0], "y==x": res[1]}


T_ZERO = {"kelvin": (Fraction(1), Fraction(0)), "celsius": (Fraction(1), Fraction("273.15")),
          "Rankine": (Fraction(5, 9), Fraction(0)), "fahrenheit": (Fraction(5, 9), Fraction("459.67") * Fraction(5, 9))}


def _run_t(case, out):
    """temperatures on the four scales: order and equality must agree with the kelvin values
    (exact affine definitions), including at the zero points"""
    c = convgen.ctx()
    m = c.m
    try:
        items = case["items"]
        qs, ks = [], []
        for scale, v, *rest in items:
            pfx = rest[0] if rest else ""
            if isinstance(v, bool) or not isinstance(v, (int, float)) or v != v or v in (float("inf"), float("-inf")):
                raise ValueError
            if v != 0 and abs(v) < 1e-290:
                raise ValueError  # subnormal readings: multiplying the prefix in rounds them to zero
            u = c.snap.units[scale]
            if u.dimension is not m.Temperature or (pfx and pfx not in c.snap.prefixes):
                raise ValueError
            pv = Fraction(c.snap.prefixes[pfx].base) ** c.snap.prefixes[pfx].exponent if pfx else Fraction(1)
            if scale in T_ZERO:
                a, b = T_ZERO[scale]
                k = Fraction(v) * pv * a + b   # the prefixed scale reads v when the scale reads v * prefix
            else:
                k = Fraction(v) * pv * c.sizes.unit_size(u)
            if abs(k) > 10**9:
                raise ValueError
            qs.append(m.Quantity(v, c.snap.prefixes[pfx] * u if pfx else u))
            ks.append(k)
            if pfx or scale not in T_ZERO:
                out.classes.append("t:prefixed-or-linear-unit")
    except Exception:
        out.invalid = True
        return
    out.classes.append("t:checked")
    for i, a in enumerate(qs):
        for j, b in enumerate(qs):
            if j <= i:
                continue
            tie = abs(ks[i] - ks[j]) <= Fraction(1, 10**9) * max(abs(ks[i]), abs(ks[j]), Fraction("273.15"))
            try:
                res = {"==": a == b, "r==": b == a, "<": a < b, ">": a > b, "<=": a <= b, ">=": a >= b}
            except Exception as e:  # noqa
                out.fail(f"C12:t:raises:{type(e).__name__}@{core.innermost_frame(e)}", f"comparing {a!r} with {b!r} raised {type(e).__name__}: {e}")
                continue
            for name in ("==", "r=="):
                if res[name] is True and a.unit is b.unit and hash(a) != hash(b):
                    kind = "same-unit-same-number" if Fraction(a.magnitude) == Fraction(b.magnitude) else (
                        "same-unit-prefixed" if a.unit.prefix is not m.IdentityPrefix else "same-unit-unprefixed")
                    out.fail(f"C12:hash:{kind}", f"{a!r} == {b!r} but hashes differ")
            if tie:
                out.classes.append("t:tie")
                continue
            lt = ks[i] < ks[j]
            if res["=="] is not False or res["r=="] is not False:
                out.fail("C12:t:eq", f"{a!r} == {b!r} reported {res['==']}/{res['r==']}; kelvin values {float(ks[i])!r} vs {float(ks[j])!r}")
            if res["<"] is not lt or res[">"] is not (not lt) or res["<="] is not lt or res[">="] is not (not lt):
                out.fail("C12:t:order", f"{a!r} vs {b!r}: < {res['<']} > {res['>']} <= {res['<=']} >= {res['>=']}; kelvin values {float(ks[i])!r} vs {float(ks[j])!r}")
    if all(abs(ks[i] - ks[j]) > Fraction(1, 10**9) * Fraction(300) for i in range(len(ks)) for j in range(i)):
        try:
            got = sorted(qs)
            want = [q for _, _, q in sorted(zip(ks, range(len(qs)), qs), key=lambda t: (t[0], t[1]))]
            if [id(q) for q in got] != [id(q) for q in want]:
                out.fail("C12:t:sorted", f"sorted({qs!r}) = {got!r}")
        except Exception as e:  # noqa
            out.fail(f"C12:t:raises:{type(e).__name__}@{core.innermost_frame(e)}", f"sorting {qs!r} raised {e!r}")
    if len({it[0] for it in items}) > 1:
        out.nontrivial = "t|" + "|".join(":".join(map(str, it)) for it in items)
        out.sample = {"family": "temperatures", "items": items}


def _run_s(case, out):
    """comparisons across declared equivalences where those are exactly consistent: the
    tolerance is that of float arithmetic (1e-12 x (degree+1)), not of the shipped data"""
    from .. import synth
    from ..sizes import Sizes

    try:
        spec, queries, nudges = case["world"], case["queries"], case["nudge"]
        if not synth.valid_spec(spec) or not isinstance(queries, list) or len(nudges) != len(queries):
            raise ValueError
        nudges = [float(x) for x in nudges]
        if any(x != x or abs(x) > 1 for x in nudges):
            raise ValueError
    except Exception:
        out.invalid = True
        return
    sw = synth.SynWorld(spec)
    m = sw.m
    out.classes.append("s:world")
    n = 0
    for q, d in zip(queries, nudges):
        if not synth.valid_query(sw, q):
            continue
        try:
            mag = convgen.mag_value(q["mag"])
        except Exception:
            continue
        A, B = sw.build(q["src"]), sw.build(q["dst"])
        if A.dimension is not B.dimension or domain.pair_classes(A, B, m.One) or Fraction(mag) == 0:
            continue
        ratio = sw.terms_size(q["src"]) / sw.terms_size(q["dst"])
        exact_b = Fraction(mag) * ratio * (1 + Fraction(d))
        try:
            vb = float(exact_b)
        except OverflowError:
            continue
        if not (1e-200 < abs(vb) < 1e200) or not convgen.range_ok(Sizes(sw.w, m.One), mag, A, B):
            out.inconclusive = "float-range"
            continue
        a, b = m.Quantity(mag, A), m.Quantity(vb, B)
        sa, sb = Fraction(mag) * sw.terms_size(q["src"]), Fraction(vb) * sw.terms_size(q["dst"])
        deg = domain.degree(A, m.One) + domain.degree(B, m.One)
        tie = abs(sa - sb) <= Fraction(1, 10**12) * (deg + 1) * max(abs(sa), abs(sb))
        try:
            res = {"==": a == b, "r==": b == a, "<": a < b, ">": a > b, "<=": a <= b, ">=": a >= b, "r<": b < a}
        except Exception as e:  # noqa
            out.classes.append(f"s:raised:{type(e).__name__}")  # C07's business
            continue
        n += 1
        for name in ("==", "r=="):
            if res[name] is True and a.unit is b.unit and Fraction(a.magnitude) == Fraction(b.magnitude) and hash(a) != hash(b):
                out.fail("C12:hash:same-unit-same-number", f"{a!r} == {b!r} but hashes differ")
        if tie:
            out.classes.append("s:tie")
            if res["=="] and res["<"]:
                out.fail("C12:s:eq-and-lt", f"{a!r} vs {b!r}: == and < both hold")
            continue
        out.classes.append("s:decided-near" if abs(d) <= 1e-9 else "s:decided")
        lt = sa < sb
        if res["=="] is not False or res["r=="] is not False:
            out.fail("C12:s:eq", f"synthetic world: {a!r} == {b!r} reported {res['==']}/{res['r==']}; exact values differ by {float(abs(sa - sb) / max(abs(sa), abs(sb))):.3g} relative")
        if res["<"] is not lt or res[">"] is not (not lt) or res["r<"] is not (not lt) or res["<="] is not lt or res[">="] is not (not lt):
            out.fail("C12:s:order", f"synthetic world: {a!r} vs {b!r}: < {res['<']} > {res['>']} <= {res['<=']} >= {res['>=']} reversed < {res['r<']}; exact order a<b is {lt}")
    if n:
        out.nontrivial = "s|" + core.case_hash(case)
        out.sample = {"family": "synthetic world", "pairs_compared": n, "first_query": queries[0]}
    convgen.ctx()  # the shared world is the active one again


def run_case(case) -> core.Outcome:
    out = core.Outcome()
    fam = case.get("f") if isinstance(case, dict) else None
    if fam == "s":
        _run_s(case, out)
    elif fam == "t":
        _run_t(case, out)
    elif fam == "q":
        _run_q(case, out)
    elif fam == "x":
        _run_x(case, out)
    else:
        out.invalid = True
    if out.invalid:
        out.failures = []
    return out


def still_fails(case, bucket):
    return any(f.bucket == bucket for f in run_case(case).failures)


def vacuity(col):
    missing = [k for k in ("q:D_ok", "q:pair-ordered", "q:observed-equal", "x:Measurement-Measurement", "x:equal") if not col.classes.get(k)]
    return missing or None
