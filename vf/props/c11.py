"""C11 -- a prefixed unit means exactly prefix factor times unit."""
from __future__ import annotations

from decimal import Decimal
from fractions import Fraction

from hypothesis import strategies as st

from .. import convgen, core, model
from ..sizes import prefix_value

ID = "C11"
RULE = (
    "Exhaustive: all ordered pairs of registered prefixes (incl. the identity) for product/quotient/neutral "
    "element laws; every registered prefix x 30 representative units x n in [-4,4] for power/root/quantity "
    "identities. Hypothesis: compound units (1-3 terms), int/float/Decimal magnitudes, pairs of prefixed "
    "units for division. Oracle: exact prefix value Fraction(base)**exponent and the exact size oracle; "
    "same-base identities up to object identity / exact equality, mixed SI-IEC within 1e-9. Non-trivial: "
    "prefix other than the identity and exponent not in {0,1}, or a quotient position; distinct = (identity, "
    "prefixes, exponent, unit)."
)
ASSUMPTIONS = [
    "value(p) = Fraction(p.base) ** p.exponent for registered (integer-exponent) prefixes",
    "mixed-base prefix products are only required to agree in scale (rel 1e-9), as the property states",
]
ENUMERATION_EXHAUSTIVE = False  # the two enumerated sub-spaces are; the compound/magnitude space is sampled

C = None
PFX = []
REP_UNITS = []


def setup(tier):
    global C, PFX, REP_UNITS
    if C is not None:
        return
    C = convgen.ctx()
    # prefixes of other bases are part of the API ("systems of factors with a common integer
    # base"): the library itself uses 12**-1 for the semitone; name two more here
    m = C.m
    for base, e, nm, sy in ((12, -1, "vf11 twelfth", "vftw"), (12, 1, "vf11 dozen", "vfdz"), (7, 2, "vf11 sevensq", "vfss")):
        p_ = m.Prefix(base, e, name=nm, symbol=sy)
        C.snap.prefixes[nm] = p_
        if nm not in C.prefixes:
            C.prefixes.append(nm)
    PFX = [""] + C.prefixes
    want = ["meter", "gram", "kilogram", "second", "ampere", "kelvin", "mole", "candela", "bit", "byte", "newton", "joule", "watt",
            "pascal", "volt", "ohm", "hertz", "liter", "hectare", "acre", "foot", "inch", "mile", "pound", "gallon", "hour",
            "electron-volt", "calorie", "radian", "degree", "coulomb", "tesla", "horsepower", "tonne"]
    REP_UNITS = [n for n in want if n in C.units][:30]


def budget(tier):
    return {"examples": 4000, "shards": 1} if tier == "quick" else {"examples": 15000, "shards": 16}


def strategy(tier):
    c = C
    FREE = convgen.free_pair(c)
    MAG = convgen.magnitudes()
    NZ = convgen.magnitudes(allow_zero=False)
    P = st.sampled_from(PFX)
    N = st.integers(-4, 4)

    @st.composite
    def mix(draw):
        a, b = draw(FREE)
        return {"k": "compound", "p": draw(P), "q": draw(P), "a": a, "b": b, "n": draw(N), "mag": draw(MAG), "mag2": draw(NZ)}

    return mix()


def enumerate_cases(tier):
    out = []
    # roots first: a root may be the first expression of the process to produce a given prefix,
    # and whatever it builds is the interned instance every later expression gets
    for p in PFX:
        for q in PFX:
            for n in (2, 3, -2, 4):
                out.append({"k": "proot", "p": p, "q": q, "n": n})
    for p in PFX:
        for q in PFX:
            out.append({"k": "pair", "p": p, "q": q})
    for p in PFX:
        for u in REP_UNITS:
            for n in range(-4, 5):
                out.append({"k": "unit", "p": p, "u": u, "n": n, "mag": {"t": ["int", "float", "dec"][(len(p) + n) % 3], "v": [7, 2.5, "1.25"][(len(p) + n) % 3]}})
    out.append({"k": "leftovers"})
    # last: the identities once more around a long run of unrelated work (thousands of other
    # prefixes, a hundred and fifty thousand other units created in between)
    out.append({"k": "churn", "prefixes": 3000, "units": 150000})
    return out


def _run_leftovers(case, out):
    """units in which every base unit has cancelled but a prefix is left ((p*u)/u, p*One): they are
    multiplied and divided by One, by themselves and by each other, and after each such operation
    the identities on One hold: IdentityPrefix*One is One, p*One is p*One, (p*One)**n is p**n*One**n,
    m*(p*One) has the value m*value(p), stripping the prefix does not change the value."""
    c = convgen.ctx()
    m = c.m
    One = m.One
    prefixes = [c.snap.prefixes[n] for n in PFX if n]
    some = [c.units[u] for u in REP_UNITS[:4]]
    n_checked = 0

    def identities(after):
        nonlocal n_checked
        for p in prefixes:
            n_checked += 1
            pone = p * One
            if m.IdentityPrefix * One is not One or dict(One.factors) != {One: 1}:
                out.fail("C11:leftovers:one-damaged", f"after {after}: IdentityPrefix*One is not One, or One.factors = {dict(One.factors)!r}")
                return False
            if pone is not p * One or pone.prefix is not p or dict(pone.factors) != {One: 1}:
                out.fail("C11:leftovers:prefixed-one", f"after {after}: {p!r} * One is {pone!r}")
                return False
            for k in (2, -1, 3):
                if pone**k is not (p**k) * One**k:
                    out.fail("C11:leftovers:power", f"after {after}: ({p!r}*One)**{k} is not {p!r}**{k} * One**{k}")
                    return False
            q = 7 * pone
            v = q.unprefixed()
            if v.unit is not One or abs(float(v.magnitude) - 7 * float(_pv(p))) > 1e-9 * abs(7 * float(_pv(p))):
                out.fail("C11:leftovers:value", f"after {after}: 7 x ({p!r}*One) unprefixed is {v!r}")
                return False
        return True

    if not identities("nothing"):
        return
    for p in prefixes:
        for u in some:
            left = (p * u) / u
            for name, f in (("x/One", lambda: left / One), ("x*One", lambda: left * One), ("One*x", lambda: One * left), ("One/x", lambda: One / left),
                            ("x/x", lambda: left / left), ("x*x", lambda: left * left), ("(p*One)/One", lambda: (p * One) / One), ("x**0", lambda: left**0)):
                try:
                    f()
                except Exception as e:  # noqa
                    out.fail(f"C11:leftovers:raises:{type(e).__name__}@{core.innermost_frame(e)}", f"{name} with x = ({p!r}*{u.name})/{u.name}: {type(e).__name__}: {e}")
                    return
                if not identities(f"{name} with x = ({p.name or p!r}*{u.name})/{u.name}"):
                    return
    out.classes.append("leftovers")
    out.nontrivial = "leftovers"
    out.sample = {"identities_checked": n_checked}


def _run_churn(case, out):
    """(p*u)**n is p**n * u**n, Kilo*Deca is Kilo*Deca ...: one side is evaluated and kept, then a
    long stream of other prefixes and units is created, then the other side is evaluated.  The
    interned objects a program holds stay THE objects for their values however much else
    happens in the process."""
    c = convgen.ctx()
    m, snap = c.m, c.snap
    try:
        n_p, n_u = int(case["prefixes"]), int(case["units"])
        if not (0 <= n_p <= 20000 and 0 <= n_u <= 400000):
            raise ValueError
    except Exception:
        out.invalid = True
        return
    P = snap.prefixes
    meter, second, gram = c.units["meter"], c.units["second"], c.units["gram"]
    btu, hour, foot = c.units.get("British thermal unit"), c.units.get("hour"), c.units.get("foot")
    exprs = [
        ("kilo*deca", lambda: P["kilo"] * P["deca"]),
        ("mega/hecto", lambda: P["mega"] / P["hecto"]),
        ("kibi*mebi**2", lambda: P["kibi"] * P["mebi"] ** 2),
        ("(kilo*meter)**3", lambda: (P["kilo"] * meter) ** 3),
        ("kilo**3*meter**3", lambda: P["kilo"] ** 3 * meter**3),
        ("(milli*gram)**2/(micro*second)", lambda: (P["milli"] * gram) ** 2 / (P["micro"] * second)),
        ("(kilo*deca)*meter/second**2", lambda: (P["kilo"] * P["deca"]) * meter / second**2),
    ]
    if btu is not None and hour is not None and foot is not None:
        exprs.append(("kilo*(BTU/h/ft**2)", lambda: P["kilo"] * (btu / hour / foot**2)))
        exprs.append(("(kilo*BTU)/h/ft**2", lambda: (P["kilo"] * btu) / hour / foot**2))
    held = [(text, fn()) for text, fn in exprs]
    for i in range(n_p):
        m.Prefix(10, 1000 + i)
        if i % 3 == 0:
            P["kibi"] * m.Prefix(10, 40000 + i)   # a float-exponent (mixed-base) prefix
    for i in range(n_u):
        meter ** (50 + i) * second ** (-(i % 7) - 1)
    bad = 0
    for (text, old), (_t, fn) in zip(held, exprs):
        new = fn()
        if new is not old:
            bad += 1
            out.fail("C11:churn:identity", f"{text} evaluated before and after {n_p} other prefixes and {n_u} other units were created gives two objects")
        if isinstance(old, m.Unit):
            try:
                eq = (3 * old == 3 * new) and (m.Quantity(3000, old.quantify().unit) == 3000 * old.quantify().unit)
            except Exception as e:  # noqa
                out.fail(f"C11:churn:raises:{type(e).__name__}@{core.innermost_frame(e)}", f"comparing 3 {text} before/after the churn raised {type(e).__name__}: {e}")
                continue
            if not eq:
                out.fail("C11:churn:equal", f"3 x ({text}) held from before the churn != 3 x the same expression evaluated afterwards")
    out.classes.append("churn:checked")
    out.nontrivial = f"churn|{n_p}|{n_u}"
    out.sample = {"held_expressions": len(held), "other_prefixes_created": n_p + n_p // 3, "other_units_created": n_u}


def _pv(p) -> Fraction:
    return prefix_value(p)


def _si(c, q):
    s = c.sizes.unit_size(q.unit, approx_mixed=True)
    if s is None:
        return None
    try:
        return Fraction(q.magnitude) * s
    except (ValueError, OverflowError, TypeError):
        return None


def _close(x, y, tol=Fraction(1, 10**9)):
    if x == y:
        return True
    d = max(abs(x), abs(y))
    return abs(x - y) <= tol * d


def _mixed(*prefixes):
    """prefixes of more than one base are involved (a non-integer exponent is what is left of
    an earlier base change inside a compound unit)"""
    if any(p.base and not isinstance(p.exponent, int) and float(p.exponent) != int(p.exponent) for p in prefixes):
        return True
    return len({p.base for p in prefixes if p.base}) > 1


def run_case(case) -> core.Outcome:
    out = core.Outcome()
    c = convgen.ctx()
    m = c.m
    snap = c.snap
    if isinstance(case, dict) and case.get("k") == "churn":
        _run_churn(case, out)
        return out
    if isinstance(case, dict) and case.get("k") == "leftovers":
        _run_leftovers(case, out)
        return out
    try:
        kind = case["k"]
        p = snap.prefixes[case["p"]]
        if kind in ("pair", "proot"):
            q = snap.prefixes[case["q"]]
            n = case.get("n", 1)
        elif kind == "unit":
            u = c.units[case["u"]]
            n = case["n"]
            mag = convgen.mag_value(case["mag"])
        elif kind == "compound":
            q = snap.prefixes[case["q"]]
            if not (convgen.valid_terms(c, case["a"]) and convgen.valid_terms(c, case["b"])):
                raise ValueError
            n = case["n"]
            mag, mag2 = convgen.mag_value(case["mag"]), convgen.mag_value(case["mag2"])
        else:
            raise ValueError
        if kind not in ("pair",) and (isinstance(n, bool) or not isinstance(n, int) or abs(n) > 4):
            raise ValueError
    except Exception:
        out.invalid = True
        return out

    def fail(clause, detail, *pfx):
        site = "mixed-base" if _mixed(*pfx) else "same-base"
        out.fail(f"C11:{clause}:{site}", detail)

    try:
        if kind == "proot":
            if _mixed(p, q) or not (p.base or q.base) or n == 0:
                out.classes.append("proot:not-applicable")
                return out
            base = p.base or q.base
            e = (p.exponent if p.base else 0) + (q.exponent if q.base else 0)
            if e % n or e == 0:
                out.classes.append("proot:not-a-perfect-power")
                return out
            k = e // n
            out.classes.append("proot:checked")
            t = (p * q).root(n)
            want_v = Fraction(base) ** k
            if t is not m.Prefix(base, k) or t.base != base or t.exponent != k:
                fail("prefix-root", f"({case['p']}*{case['q']}).root({n}) = {t!r}, expected the interned Prefix({base}, {k})", p, q)
            elif type(t.exponent) is not int:
                fail("prefix-root-exponent-type", f"({case['p']}*{case['q']}).root({n}) left exponent {t.exponent!r} ({type(t.exponent).__name__}) in the interned Prefix({base}, {k})", p, q)
            elif Fraction(t.quantify()) != want_v and k > 0:
                fail("prefix-root-value", f"({case['p']}*{case['q']}).root({n}).quantify() = {t.quantify()!r}, exact {want_v}", p, q)
            if k > 0:
                big = 2**60 + 1
                got = (big * (t * c.units["meter"])).unprefixed().magnitude
                if got != big * base**k:
                    fail("quantity-exact-int", f"(2**60+1) * (({case['p']}*{case['q']}).root({n}) * meter) strips to {got!r}, exact {big * base**k}", p, q)
            out.nontrivial = f"proot|{case['p']}|{case['q']}|{n}"
            out.sample = {"identity": "prefix root", "p": case["p"], "q": case["q"], "n": n}
            return out
        if kind == "pair":
            out.classes.append("pair:" + ("mixed" if _mixed(p, q) else "same-base"))
            vp, vq = _pv(p), _pv(q)
            prod, quot = p * q, p / q
            if not _mixed(p, q):
                base = p.base or q.base
                ep = (p.exponent if p.base else 0) + (q.exponent if q.base else 0)
                eq = (p.exponent if p.base else 0) - (q.exponent if q.base else 0)
                want_prod = m.Prefix(base, ep) if base else m.IdentityPrefix
                want_quot = m.Prefix(base, eq) if base else m.IdentityPrefix
                if prod is not want_prod or (prod.base and prod.exponent != ep):
                    fail("prefix-product", f"{case['p']}*{case['q']} = {prod!r}, expected the interned Prefix({base}, {ep})", p, q)
                if quot is not want_quot or (quot.base and quot.exponent != eq):
                    fail("prefix-quotient", f"{case['p']}/{case['q']} = {quot!r}, expected the interned Prefix({base}, {eq})", p, q)
                if q * p is not prod:
                    fail("prefix-commute", f"{case['p']}*{case['q']} is not {case['q']}*{case['p']}", p, q)
            else:
                for name, got, want in (("prefix-product", prod, vp * vq), ("prefix-quotient", quot, vp / vq)):
                    if not _close(Fraction(got.quantify()), want):
                        fail(name, f"{case['p']} {name} {case['q']} has scale {got.quantify()!r}, exact {float(want)!r}", p, q)
            # cancellation: (p*q)/q and (p/q)*q denote p (identical object within one base,
            # same scale within 1e-9 across bases)
            for name, got in (("cancel-mul-div", (p * q) / q), ("cancel-div-mul", (p / q) * q)):
                if not _mixed(p, q):
                    if got is not p:
                        fail(name, f"({case['p']} x {case['q']}) cancelled again is {got!r}, not {case['p']}", p, q)
                elif not _close(Fraction(got.quantify()), vp):
                    fail(name, f"({case['p']} x {case['q']}) cancelled again has scale {got.quantify()!r}, exact {float(vp)!r}", p, q)
            if p * m.IdentityPrefix is not p or m.IdentityPrefix * p is not p or p / m.IdentityPrefix is not p:
                fail("identity-neutral", f"identity prefix is not neutral for {case['p']}", p)
            if case["p"] and case["q"]:
                out.nontrivial = f"pair|{case['p']}|{case['q']}"
                out.sample = {"identity": "prefix product/quotient", "p": case["p"], "q": case["q"]}
            return out

        if kind == "unit":
            terms_a = [["", case["u"], 1]]
            A = u
            B = None
        else:
            A = convgen.build(c, case["a"])
            B = convgen.build(c, case["b"])
        pu = p * A
        vp = _pv(p)
        for pf in (pu.prefix, (pu**n).prefix if n else pu.prefix):
            # a prefix whose own value leaves the double range (2**-1070 ...) even though the
            # unit as a whole does not: float range, not a verdict
            if pf.base and abs(float(pf.exponent)) * {2: 0.30103, 10: 1.0}.get(pf.base, 1.0) > 250:
                out.inconclusive = "float-range"
                return out
        mixed_a = _mixed(p, A.prefix)
        out.classes.append(f"{kind}:" + ("mixed" if mixed_a else "same-base"))
        if not convgen.range_ok(c.sizes, mag, pu):
            out.inconclusive = "float-range"
            return out
        sA = c.sizes.unit_size(A, approx_mixed=True)
        # (1) m*(p*u) equals (m*value(p))*u
        lhs = mag * pu
        sl = _si(c, lhs)
        if sl is None or sA is None:
            out.invalid = True
            return out
        want = Fraction(mag) * vp * sA
        if not _close(sl, want):
            fail("quantity-value", f"{mag!r} * ({case['p']}*{A}) has SI value {float(sl)!r}, expected {float(want)!r}", p, A.prefix)
        pvlib = p.quantify()
        rhs = m.Quantity(mag, A) * pvlib if not isinstance(mag, Decimal) else m.Quantity(mag * Decimal(pvlib) if isinstance(pvlib, int) else mag, A)
        if not isinstance(mag, Decimal) or isinstance(pvlib, int):
            try:
                same = lhs == rhs
            except Exception as e:  # noqa
                same = f"raised {type(e).__name__}"
            if same is not True and not mixed_a:
                # equality through the library's own arithmetic: identical float operations
                rel = None
                try:
                    rel = abs(float(Fraction(lhs.unprefixed().magnitude) / Fraction(rhs.unprefixed().magnitude)) - 1) if Fraction(rhs.unprefixed().magnitude) else 0
                except Exception:
                    pass
                if rel is None or rel > 1e-12:
                    fail("quantity-equal", f"{lhs!r} == {rhs!r} is {same}", p, A.prefix)
        # the value a unit's quantify() hands out is shared; augmented assignment on a caller's
        # name for it must not change what the unit means afterwards
        shared = pu.quantify()
        shared *= 3
        # (6) unprefixed() keeps the value and strips every prefix
        un = lhs.unprefixed()
        su = _si(c, un)
        if un.unit.prefix is not m.IdentityPrefix:
            fail("unprefixed-prefix", f"({lhs!r}).unprefixed() still carries prefix {un.unit.prefix!r}", p, A.prefix)
        if su is None or not _close(su, want):
            fail("unprefixed-value", f"({lhs!r}).unprefixed() has SI value {su and float(su)!r}, expected {float(want)!r}", p, A.prefix)
        # (2) (p*u)**n is p**n * u**n
        pw = pu**n
        alt = (p**n) * (A**n)
        if not mixed_a:
            if pw is not alt:
                fail("power-identity", f"({case['p']}*{A})**{n} is not {case['p']}**{n} * {A}**{n}", p, A.prefix)
        s1, s2 = c.sizes.unit_size(pw, True), c.sizes.unit_size(alt, True)
        wantp = (vp * sA) ** n if (n >= 0 or vp * sA != 0) else None
        if s1 is None or s2 is None or wantp is None or not (convgen.LO < abs(wantp) < convgen.HI):
            out.inconclusive = out.inconclusive or "float-range"
        else:
            for name, s in (("power-scale", s1), ("power-scale-alt", s2)):
                if not _close(s, wantp):
                    fail(name, f"({case['p']}*{A})**{n}: size {float(s)!r}, expected {float(wantp)!r}", p, A.prefix)
        # (7) roots: ((p*u)**n).root(n) is p*u
        if n != 0:
            try:
                back = pw.root(n)
                if not mixed_a and back is not pu:
                    fail("root-identity", f"(({case['p']}*{A})**{n}).root({n}) is {back!r}, not the original unit", p, A.prefix)
                elif mixed_a:
                    sb = c.sizes.unit_size(back, True)
                    if sb is None or not _close(sb, vp * sA):
                        fail("root-scale", f"(({case['p']}*{A})**{n}).root({n}) has size {sb and float(sb)!r}", p, A.prefix)
            except Exception as e:  # noqa
                fail(f"root-raises:{type(e).__name__}@{core.innermost_frame(e)}", f"(({case['p']}*{A})**{n}).root({n}) raised {type(e).__name__}: {e}", p, A.prefix)
        # (4) identity prefix is neutral on units
        if m.IdentityPrefix * A is not A:
            fail("identity-neutral-unit", f"IdentityPrefix * {A} is not {A}", A.prefix)
        # (5) dividing by a prefixed unit divides by its factor
        if kind == "compound":
            qv = _pv(q)
            qB = q * B
            sB = c.sizes.unit_size(B, approx_mixed=True)
            if sB is not None and convgen.range_ok(c.sizes, mag2, qB) and Fraction(mag2) != 0:
                num = mag * A
                for tag, res, wantd in (
                    ("quantity/unit", num / qB, Fraction(mag) * sA / (qv * sB)),
                    ("quantity/quantity", num / (mag2 * qB), Fraction(mag) * sA / (Fraction(mag2) * qv * sB)),
                ):
                    sr = _si(c, res)
                    if sr is None or (wantd != 0 and not (convgen.LO < abs(wantd) < convgen.HI)):
                        out.inconclusive = out.inconclusive or "float-range"
                    elif not _close(sr, wantd):
                        fail("division", f"({num!r}) / [{tag}] {case['q']}*{B}: SI value {float(sr)!r}, expected {float(wantd)!r}", q, B.prefix, A.prefix)
        if case["p"] and (n not in (0, 1) or kind == "compound"):
            def _shown(u):
                try:
                    return str(u)
                except Exception as e:  # noqa -- renderings are C13's subject; a label must not stop the run
                    return f"<str() raised {type(e).__name__}>"
            shown = _shown(A)
            out.nontrivial = f"{kind}|{case['p']}|{n}|{shown}" + (f"|{case['q']}|{_shown(B)}" if kind == "compound" else "")
            out.sample = {"prefix": case["p"], "unit": shown, "n": n, "magnitude": repr(mag)}
    except (OverflowError, ZeroDivisionError):
        out.inconclusive = "float-range"
    return out


def still_fails(case, bucket):
    return any(f.bucket == bucket for f in run_case(case).failures)


def vacuity(col):
    missing = [k for k in ("pair:same-base", "pair:mixed", "unit:same-base", "compound:same-base") if not col.classes.get(k)]
    return missing or None
