"""C18 -- levels and quantities interconvert by the logarithmic definition.

For a logarithm family (base b, prefix value p), a reference quantity R and a positive
quantity Q of the same dimension

    level(Q)      = (k / p) * log_b(Q / R)        k = 1 power-like, k = 2 root-power
    quantify(L)   = R * b ** (L * p / k)

Generated: family x reference (magnitude, unit spelling) x measured quantity (another
spelling of the same dimension) x level magnitude x a second, slightly larger or smaller
quantity.  Oracle: the closed forms above evaluated with decimal.Decimal at 50 digits from
*exact* SI values: every unit spelling is turned into an exact Fraction by the table
``UNITS`` below (definitional constants only: 1 h = 3600 s, 1 mi = 1609.344 m, ...), the
families' base / prefix come from the table ``NAMED`` (bel = base 10, decibel = 1/10 bel,
neper = base e, octave = base 2, semitone = 1/12 octave), and k comes from the table of
dimension vectors ``ROOT_POWER`` -- none of this is read from the library.  The library's
answers are read structurally (``Level.magnitude``, ``Quantity.magnitude``, and the result
unit's ``prefix.base/.exponent`` and ``factors``); no library conversion is used by the
oracle.
"""
from __future__ import annotations

import math
from decimal import Context, Decimal, ROUND_HALF_EVEN
from fractions import Fraction

from hypothesis import strategies as st

from .. import core, domain
from ..world import shared_world

ID = "C18"
RULE = (
    "Hypothesis-generated cases = logarithm family (bel, decibel, neper, octave, semitone, or "
    "Prefix(pb,pe)*Logarithm(base) with base in {2,e,10,3,1.5}, pb in {2,3,10,12}, pe in {0,-1,-2,-3,-10}) "
    "x reference quantity (int/float/Decimal magnitude in [1e-12,1e6], one of 5-12 D_ok unit spellings of one of "
    "12 dimension classes: power, energy, intensity, frequency [k=1]; potential, current, pressure, field strength, "
    "speed, line/surface/volume charge density [k=2]) x measured quantity in an independently drawn spelling of the "
    "same class (free magnitude in [1e-12,1e6], or placed at a drawn level in [-200,200]) x level magnitude in "
    "[-200,200] (int/float/Decimal) x a second quantity a relative 1e-8..1e3 above or below the first, in a third "
    "spelling; plus an enumerated grid (9 families x 12 classes x 5 levels, and the shipped dBW/dBSPL/dBSWL/dBSIL/"
    "concert-pitch references). Clauses per case: level value, quantity value, q->level->q, L->quantity->L, strict "
    "monotonicity (quantities > 1e-9 apart), L == approximately(q,1e-9) in both argument orders. "
    "Non-trivial: base != 10 or prefix != 1/10, or root-power reference, or reference and quantity spelled in "
    "different units; distinct = (family, dimension class, reference spelling, quantity spelling)."
)
ASSUMPTIONS = [
    "unit spellings are restricted to exactly consistent definitional chains inside the planner's verified domain "
    "D_ok (vf.domain), so a float-rounding tolerance applies (1e-12; DESIGN 2.9 first said 1e-9); spellings outside D_ok "
    "are dropped at set-up and reported",
    "frequency is treated as a power-like (k=1) dimension: the octave is a doubling of frequency (music.py)",
    "a level is compared with tolerance 1e-12*max(|L|, (k/p)/|ln b|): the second term is what a 1e-12 relative "
    "rounding of the quantity amounts to on the level scale (needed for levels near 0)",
    "the library's float base math.e stands for e; the oracle uses e to 50 digits (difference 1e-16)",
    "quantities whose exact level lies outside [-200,200] are outside the property's quantifier: counted as "
    "excluded, not checked",
    "OverflowError / non-finite / zero float results are counted as inconclusive (float-range), never as failures",
]

TOL = Decimal("1e-12")
CTX = Context(prec=50, rounding=ROUND_HALF_EVEN, Emin=-999999, Emax=999999)

# ------------------------------------------------------------------ definitional tables
# name -> (exact size in coherent SI units, dimension vector (L, T, M, Q))

UNITS = {
    "meter": (Fraction(1), (1, 0, 0, 0)),
    "second": (Fraction(1), (0, 1, 0, 0)),
    "kilogram": (Fraction(1), (0, 0, 1, 0)),
    "gram": (Fraction(1, 1000), (0, 0, 1, 0)),
    "coulomb": (Fraction(1), (0, 0, 0, 1)),
    "minute": (Fraction(60), (0, 1, 0, 0)),
    "hour": (Fraction(3600), (0, 1, 0, 0)),
    "inch": (Fraction(254, 10000), (1, 0, 0, 0)),
    "foot": (Fraction(3048, 10000), (1, 0, 0, 0)),
    "mile": (Fraction(1609344, 1000), (1, 0, 0, 0)),
    "nautical mile": (Fraction(1852), (1, 0, 0, 0)),
    "knot": (Fraction(1852, 3600), (1, -1, 0, 0)),
    "hertz": (Fraction(1), (0, -1, 0, 0)),
    "newton": (Fraction(1), (1, -2, 1, 0)),
    "pascal": (Fraction(1), (-1, -2, 1, 0)),
    "joule": (Fraction(1), (2, -2, 1, 0)),
    "watt": (Fraction(1), (2, -3, 1, 0)),
    "ampere": (Fraction(1), (0, -1, 0, 1)),
    "volt": (Fraction(1), (2, -2, 1, -1)),
    "ohm": (Fraction(1), (2, -1, 1, -2)),
}

PREFIXES = {
    "": 0, "pico": -12, "nano": -9, "micro": -6, "milli": -3, "centi": -2,
    "hecto": 2, "kilo": 3, "mega": 6, "giga": 9,
}

# dimension vector -> (class name, k)
DIMCLASS = {
    (2, -3, 1, 0): ("power", 1),
    (2, -2, 1, 0): ("energy", 1),
    (0, -3, 1, 0): ("intensity", 1),
    (0, -1, 0, 0): ("frequency", 1),
    (2, -2, 1, -1): ("potential", 2),
    (0, -1, 0, 1): ("current", 2),
    (-1, -2, 1, 0): ("pressure", 2),
    (1, -2, 1, -1): ("field", 2),
    (1, -1, 0, 0): ("speed", 2),
    (-1, 0, 0, 1): ("linecharge", 2),
    (-2, 0, 0, 1): ("surfacecharge", 2),
    (-3, 0, 0, 1): ("volumecharge", 2),
}

# spellings: space separated terms  [prefix:]unit[^exponent]   ('_' for a blank in a name)
SPELLINGS = {
    "power": ["watt", "milli:watt", "kilo:watt", "mega:watt", "micro:watt", "pico:watt", "joule second^-1",
              "joule hour^-1", "kilo:joule hour^-1", "volt ampere", "newton meter second^-1", "newton foot minute^-1"],
    "energy": ["joule", "kilo:joule", "milli:joule", "mega:joule", "newton meter", "watt second", "volt coulomb",
               "newton foot", "newton centi:meter", "gram centi:meter^2 second^-2"],
    "intensity": ["watt meter^-2", "pico:watt meter^-2", "milli:watt centi:meter^-2", "kilo:watt meter^-2",
                  "watt foot^-2", "joule second^-1 meter^-2", "watt centi:meter^-2"],
    "frequency": ["hertz", "kilo:hertz", "milli:hertz", "mega:hertz", "second^-1", "minute^-1", "hour^-1"],
    "potential": ["volt", "milli:volt", "kilo:volt", "micro:volt", "joule coulomb^-1", "watt ampere^-1", "ampere ohm"],
    "current": ["ampere", "milli:ampere", "micro:ampere", "kilo:ampere", "coulomb second^-1", "coulomb hour^-1",
                "milli:coulomb second^-1", "watt volt^-1", "coulomb minute^-1"],
    "pressure": ["pascal", "kilo:pascal", "hecto:pascal", "micro:pascal", "mega:pascal", "newton meter^-2",
                 "newton centi:meter^-2", "newton foot^-2", "kilo:newton meter^-2", "joule meter^-3",
                 "newton milli:meter^-2"],
    "field": ["volt meter^-1", "milli:volt meter^-1", "kilo:volt meter^-1", "volt centi:meter^-1",
              "volt kilo:meter^-1", "newton coulomb^-1", "volt foot^-1", "volt inch^-1", "micro:volt meter^-1"],
    "speed": ["meter second^-1", "kilo:meter hour^-1", "centi:meter second^-1", "mile hour^-1", "foot second^-1",
              "knot", "meter minute^-1", "kilo:meter second^-1", "milli:meter second^-1", "nautical_mile hour^-1",
              "inch second^-1", "foot minute^-1"],
    "linecharge": ["coulomb meter^-1", "milli:coulomb meter^-1", "coulomb kilo:meter^-1",
                   "micro:coulomb centi:meter^-1", "coulomb foot^-1", "nano:coulomb meter^-1", "coulomb centi:meter^-1"],
    "surfacecharge": ["coulomb meter^-2", "coulomb centi:meter^-2", "milli:coulomb meter^-2",
                      "micro:coulomb centi:meter^-2", "coulomb foot^-2", "coulomb inch^-2", "nano:coulomb milli:meter^-2"],
    "volumecharge": ["coulomb meter^-3", "coulomb centi:meter^-3", "milli:coulomb meter^-3",
                     "micro:coulomb centi:meter^-3", "coulomb foot^-3", "coulomb inch^-3"],
}

# family name -> (base as written, prefix base, prefix exponent); what the names MEAN
NAMED = {
    "bel": ("10", 0, 0),
    "decibel": ("10", 10, -1),
    "neper": ("e", 0, 0),
    "octave": ("2", 0, 0),
    "semitone": ("2", 12, -1),
}
GEN_BASES = ["2", "e", "10", "3", "1.5"]
GEN_PREFIXES = [(0, 0), (10, -1), (10, -2), (10, -3), (12, -1), (2, -1), (2, -2), (2, -3), (2, -10), (3, -1), (3, -2)]
ENUM_FAMILIES = [["named", n] for n in sorted(NAMED)] + [
    ["gen", "3", 0, 0], ["gen", "1.5", 2, -2], ["gen", "e", 10, -1], ["gen", "10", 10, -2],
]

W = None  # the shared world
MUSIC = None  # measured.music of that world
TERMS = {}  # class -> list of term lists usable on this tree
DROPPED = []  # spellings outside D_ok (reported in the evidence)


def parse_spelling(s):
    out = []
    for tok in s.split():
        e = 1
        if "^" in tok:
            tok, e = tok.split("^")
            e = int(e)
        p = ""
        if ":" in tok:
            p, tok = tok.split(":")
        out.append([p, tok.replace("_", " "), e])
    return out


def spell(terms):
    return " ".join((f"{p}:" if p else "") + n.replace(" ", "_") + (f"^{e}" if e != 1 else "") for p, n, e in terms)


# ------------------------------------------------------------------ exact side (no library)


def terms_ok(terms):
    if not isinstance(terms, list) or not terms or len(terms) > 4:
        return False
    for t in terms:
        if not (isinstance(t, list) and len(t) == 3):
            return False
        p, n, e = t
        if not isinstance(p, str) or p not in PREFIXES or not isinstance(n, str) or n not in UNITS:
            return False
        if isinstance(e, bool) or not isinstance(e, int) or e == 0 or abs(e) > 3:
            return False
    return True


def terms_size(terms):
    s = Fraction(1)
    for p, n, e in terms:
        s *= (Fraction(10) ** PREFIXES[p] * UNITS[n][0]) ** e
    return s


def terms_dim(terms):
    v = [0, 0, 0, 0]
    for _p, n, e in terms:
        for i, x in enumerate(UNITS[n][1]):
            v[i] += x * e
    return tuple(v)


def num_ok(spec):
    if not (isinstance(spec, list) and len(spec) == 2):
        return False
    kind, v = spec
    if kind == "i":
        return isinstance(v, int) and not isinstance(v, bool) and abs(v) <= 10**9
    if kind == "f":
        return isinstance(v, float) and math.isfinite(v)
    if kind == "d":
        if not isinstance(v, str) or len(v) > 40:
            return False
        try:
            return Decimal(v).is_finite()
        except Exception:
            return False
    return False


def num_value(spec):
    kind, v = spec
    return Decimal(v) if kind == "d" else v


def num_exact(spec):
    return Fraction(num_value(spec))


def family_params(fam):
    """(label, base string, prefix base, prefix exponent) or None for a malformed spec"""
    if not isinstance(fam, list) or not fam:
        return None
    if fam[0] == "named" and len(fam) == 2 and isinstance(fam[1], str) and fam[1] in NAMED:
        b, pb, pe = NAMED[fam[1]]
        return fam[1], b, pb, pe
    if fam[0] == "gen" and len(fam) == 4:
        _, b, pb, pe = fam
        if b not in GEN_BASES or isinstance(pb, bool) or isinstance(pe, bool):
            return None
        if not isinstance(pb, int) or not isinstance(pe, int):
            return None
        if pe == 0 or pb == 0:
            pb, pe = 0, 0
        if (pb, pe) not in GEN_PREFIXES:
            return None
        for name, par in sorted(NAMED.items()):
            if par == (b, pb, pe):
                return name, b, pb, pe  # the generated expression denotes a named family
        return f"log{b}" + (f"*{pb}^{pe}" if pb else ""), b, pb, pe
    return None


def D(x):
    """Fraction / int -> Decimal at 50 digits"""
    if isinstance(x, Fraction):
        return CTX.divide(Decimal(x.numerator), Decimal(x.denominator))
    return CTX.create_decimal(x)


def ln_base(b):
    return Decimal(1) if b == "e" else CTX.ln(Decimal(b))


def exact_level(ratio, k, pv, lnb):
    """(k/p) * log_b(ratio) for an exact positive Fraction ratio"""
    return CTX.divide(CTX.multiply(CTX.divide(D(Fraction(k)), D(pv)), CTX.ln(D(ratio))), lnb)


def exact_ratio(level, k, pv, lnb):
    """b ** (L * p / k) for an exact Fraction level"""
    return CTX.exp(CTX.multiply(CTX.divide(CTX.multiply(D(level), D(pv)), D(Fraction(k))), lnb))


def close(obs, exp, tol=TOL):
    """|obs/exp - 1| <= tol for Decimals (exp != 0)"""
    return abs(CTX.subtract(CTX.divide(obs, exp), Decimal(1))) <= tol


# ------------------------------------------------------------------ library side


def build_unit(terms):
    m = W.m
    u = None
    for p, n, e in terms:
        t = m.Unit._by_name[n]
        if p:
            t = m.Prefix._by_name[p] * t
        if e != 1:
            t = t**e
        u = t if u is None else u * t
    return u


def base_for_library(b):
    if b == "e":
        return math.e
    if b == "1.5":
        return 1.5
    return int(b)


def build_logarithm(fam, params):
    m = W.m
    if fam[0] == "named":
        if fam[1] == "semitone":
            return MUSIC.Semitone
        return {"bel": m.Bel, "decibel": m.Decibel, "neper": m.Neper, "octave": m.Octave}[fam[1]]
    _, b, pb, pe = params
    lg = m.Logarithm(base_for_library(b))
    if pb:
        lg = m.Prefix(pb, pe) * lg
    return lg


def unit_si(u):
    """(exact size, dimension vector) of a library unit, read structurally from its prefix
    and base-unit factors; None when a factor is not in the definitional table"""
    p = u.prefix
    if p.base == 0:
        s = Fraction(1)
    elif isinstance(p.exponent, int):
        s = Fraction(p.base) ** p.exponent
    else:
        s = Fraction(float(p.base) ** float(p.exponent))
    v = [0, 0, 0, 0]
    for f, e in u.factors.items():
        if f is W.m.One:
            continue
        if f.name not in UNITS:
            return None
        s *= UNITS[f.name][0] ** e
        for i, x in enumerate(UNITS[f.name][1]):
            v[i] += x * e
    return s, tuple(v)


def is_float_range(x):
    if isinstance(x, float):
        return not math.isfinite(x) or x == 0.0
    if isinstance(x, Decimal):
        return not x.is_finite() or x == 0
    return False


# ------------------------------------------------------------------ set-up, budget, strategy


def setup(tier):
    global W, MUSIC
    if W is not None:
        return
    w = shared_world()
    MUSIC = w.load("music")
    w.load("acoustics")
    w.load("electronics")
    W = w
    One = w.m.One
    for cls in sorted(SPELLINGS):
        keep = []
        for s in SPELLINGS[cls]:
            t = parse_spelling(s)
            if not terms_ok(t) or DIMCLASS.get(terms_dim(t), ("?",))[0] != cls:
                raise AssertionError(f"harness: spelling table entry {cls}: {s!r} is inconsistent")
            u = build_unit(t)
            if domain.side_classes(u, One):
                DROPPED.append(f"{cls}: {s}")
                continue
            keep.append(t)
        TERMS[cls] = keep


def shard_extra():
    return {"spellings_outside_D_ok_dropped": list(DROPPED),
            "spellings_in_use": {c: len(v) for c, v in sorted(TERMS.items())}}


def budget(tier):
    if tier == "quick":
        return {"examples": 6000, "shards": 1}
    return {"examples": 20000, "shards": 16}


def _magnitudes():
    """positive magnitudes in [1e-12, 1e6]"""
    return st.one_of(
        st.floats(-12, 6, allow_nan=False).map(lambda x: ["f", min(1e6, max(1e-12, 10.0**x))]),
        st.floats(-12, 6, allow_nan=False).map(lambda x: ["f", min(1e6, max(1e-12, 10.0**x))]),
        st.tuples(st.integers(1, 999), st.integers(-12, 3)).map(lambda t: ["f", float(f"{t[0]}e{t[1]}")]),
        st.sampled_from([1, 1, 2, 10, 20, 100, 440, 1000]).map(lambda n: ["i", n]),
        st.integers(1, 10**6).map(lambda n: ["i", n]),
        st.tuples(st.integers(1, 99999), st.integers(-12, 1)).map(lambda t: ["d", f"{t[0]}E{t[1]}"]),
    )


def _levels():
    """level magnitudes in [-200, 200]"""
    return st.one_of(
        st.floats(-200, 200, allow_nan=False).map(lambda x: ["f", x]),
        st.floats(-200, 200, allow_nan=False).map(lambda x: ["f", x]),
        st.floats(-2, 2, allow_nan=False).map(lambda x: ["f", x]),
        st.integers(-200, 200).map(lambda n: ["i", n]),
        st.sampled_from([-200, -20, -10, -3, -1, 0, 1, 3, 6, 10, 12, 20, 200]).map(lambda n: ["i", n]),
        st.integers(-20000, 20000).map(lambda n: ["d", str(Decimal(n) / Decimal(100))]),
    )


def _families():
    named = st.sampled_from(sorted(NAMED)).map(lambda n: ["named", n])
    gen = st.tuples(st.sampled_from(GEN_BASES), st.sampled_from(GEN_PREFIXES)).map(lambda t: ["gen", t[0], t[1][0], t[1][1]])
    return st.one_of(named, gen, gen)


_ST = {}


def _strategies():
    """component strategies are built once (re-creating them per draw costs more than the check itself)"""
    if not _ST:
        _ST["cls"] = st.sampled_from(sorted(c for c in TERMS if TERMS[c]))
        _ST["units"] = {c: st.sampled_from(TERMS[c]) for c in sorted(TERMS) if TERMS[c]}
        _ST["mag"] = _magnitudes()
        _ST["level"] = _levels()
        _ST["fam"] = _families()
        _ST["rel"] = st.floats(-8, 3, allow_nan=False).map(lambda x: 10.0**x)
        _ST["qat"] = st.floats(-200, 200, allow_nan=False)
        _ST["bool"] = st.booleans()
    return _ST


@st.composite
def _case(draw):
    S = _strategies()
    cls = draw(S["cls"])
    units = S["units"][cls]
    q_free = draw(S["bool"])
    return {
        "fam": draw(S["fam"]),
        "ref": [draw(S["mag"]), draw(units)],
        "at": draw(S["level"]),
        "q": [draw(S["mag"]) if q_free else None, draw(units)],
        "qat": draw(S["qat"]),
        "q2": [draw(S["rel"]), draw(S["bool"]), draw(units)],
    }


def strategy(tier):
    return _case()


SCENARIO_REFS = [("watt", 1, 1, ""), ("volt", 2, 1, ""), ("pascal", 2, 20, "micro"), ("ampere", 2, 1, "milli")]
SCENARIO_LOGS = [("decibel", 10.0, 0.1), ("bel", 10.0, 1.0), ("neper", math.e, 1.0), ("octave", 2.0, 1.0)]


def _scenario_levels(m, units, prefixes):
    """(description, level object factory, closed-form SI quantity) for a small fixed table;
    the oracle is the definition written out by hand, with k from the table above"""
    logs = {"decibel": m.Decibel, "bel": m.Bel, "neper": m.Neper, "octave": m.Octave}
    for uname, k, refmag, refp in SCENARIO_REFS:
        unit = units[uname] if not refp else prefixes[refp] * units[uname]
        refscale = {"": 1.0, "micro": 1e-6, "milli": 1e-3}[refp]
        for lname, b, pv in SCENARIO_LOGS:
            lu = logs[lname][refmag * unit]
            yield uname, k, refmag * refscale, lname, b, pv, lu


def _run_scenario(case, out):
    """(arith)  a level that has already been quantified / compared is shifted with * and / and
    the result is converted: it must denote reference * base**((L+d)*prefix/k);
    (after-define)  the same table of levels is evaluated in a fresh world before and after a
    new fundamental dimension is defined (Dimension.define resizes every dimension in place)."""
    sc = case.get("sc")
    if sc == "arith":
        c_m = W.m
        units = {n: c_m.Unit._by_name[n] for n in ("watt", "volt", "pascal", "ampere")}
        prefixes = {n: c_m.Prefix._by_name[n] for n in ("micro", "milli")}
        worlds = [("shared", c_m, units, prefixes)]
    elif sc == "after-define":
        from ..world import World

        w2 = World(["si", "acoustics", "electronics"])
        c_m = w2.m
        units = {n: c_m.Unit._by_name[n] for n in ("watt", "volt", "pascal", "ampere")}
        prefixes = {n: c_m.Prefix._by_name[n] for n in ("micro", "milli")}
        worlds = [("before-define", c_m, units, prefixes), ("after-define", c_m, units, prefixes)]
    elif sc in ("offset-scale", "redeclared"):
        _run_user_units(case, out, sc)
        return
    elif sc == "same-base-units":
        _run_same_base_units(case, out)
        return
    elif sc == "reference-table":
        _run_reference_table(case, out)
        return
    else:
        out.invalid = True
        return
    try:
        for tag, m, units, prefixes in worlds:
            if tag == "after-define":
                m.Dimension.define("vf18 extra", "VFY")
            for uname, k, refsi, lname, b, pv, lu in _scenario_levels(m, units, prefixes):
                for L0, d in ((10, 10), (0, 3), (-6.5, 2.5), (20, -14)):
                    what = f"[{tag}] {L0} {lname} re {refsi:g} {uname}"
                    try:
                        lvl = L0 * lu
                        q0 = lvl.quantify()
                        lvl == q0  # noqa: B015 -- a comparison before the arithmetic is part of the scenario
                        want0 = refsi * b ** (L0 * pv / k)
                        got0 = float(q0.unprefixed().magnitude)
                        if abs(got0 - want0) > 1e-9 * abs(want0):
                            out.fail(f"C18:scenario:{tag}:l2q", f"{what}: quantify() = {got0!r} SI, definition gives {want0!r} (k={k})")
                        back = lu.level(q0)
                        if abs(float(back.magnitude) - L0) > 1e-9 * max(abs(L0), (k / pv) / abs(math.log(b))):
                            out.fail(f"C18:scenario:{tag}:q2l", f"{what}: level of its own quantity is {back.magnitude!r} (k={k})")
                        for name, shifted, Ls in (("mul", lvl * d, L0 + d), ("div", lvl / d, L0 - d)):
                            if float(shifted.magnitude) != float(Ls) and abs(float(shifted.magnitude) - Ls) > 1e-12:
                                continue  # Level arithmetic itself is not this property's subject
                            want = refsi * b ** (Ls * pv / k)
                            got = float(shifted.quantify().unprefixed().magnitude)
                            if abs(got - want) > 1e-9 * abs(want):
                                out.fail(f"C18:scenario:{tag}:shifted-level:{name}", f"{what} shifted by {d} ({name}) to {shifted.magnitude!r}: quantify() = {got!r} SI, definition gives {want!r}")
                            eq1, eq2 = shifted == m.approximately(shifted.quantify(), 1e-9), m.approximately(shifted.quantify(), 1e-9) == shifted
                            if not (eq1 and eq2):
                                out.fail(f"C18:scenario:{tag}:shifted-level:eq", f"{what} shifted to {shifted.magnitude!r} does not compare equal to the quantity it denotes ({eq1}, {eq2})")
                    except Exception as e:  # noqa
                        out.fail(f"C18:scenario:{tag}:raises:{type(e).__name__}@{core.innermost_frame(e)}", f"{what}: {type(e).__name__}: {e}")
                    if len(out.failures) > 6:
                        return
    finally:
        if sc == "after-define":
            from ..world import shared_world

            shared_world()
    out.classes.append(f"scenario:{sc}")
    out.nontrivial = f"scenario|{sc}"
    out.sample = {"scenario": sc}


def _run_reference_table(case, out):
    """many logarithmic units of one family and unit that differ only in the reference magnitude
    are created first and used afterwards: references that are close together (1, 1+2**-40), of
    different numeric types, and references whose Python hashes coincide although the values differ
    (1 and 2**61, 0.5 and 2**60: numbers hash modulo 2**61-1).  Each unit must keep its own reference."""
    from decimal import Decimal as D

    m = W.m
    U = m.Unit._by_name
    logs = {"decibel": (m.Decibel, 10.0, 0.1), "neper": (m.Neper, math.e, 1.0), "octave": (m.Octave, 2.0, 1.0)}
    mags = [1, 2**61, 2, 2**61 + 1, 0.5, 2**60, 3, 2**62 + 1, 1 + 2**-40, D(5), 5 + 5 * (2**61 - 1), 0.25, 2**59, 7, D(7) + 7 * D(2**61 - 1)]
    n = 0
    for uname, k in (("watt", 1), ("volt", 2), ("hertz", 1)):
        unit = U[uname]
        for lname, (log, b, pv) in logs.items():
            made = [(mag, log[mag * unit]) for mag in mags]
            for mag, lu in made:
                what = f"{lname} re {mag!r} {uname} (one of {len(mags)} references of that unit)"
                try:
                    n += 1
                    want = (k / pv) * math.log(8) / math.log(b)
                    got = float(lu.level((mag * 8) * unit).magnitude)
                    if abs(got - want) > 1e-9 * max(1.0, abs(want)):
                        out.fail("C18:scenario:reference-table:q2l", f"{what}: level of 8 x reference is {got!r}, definition gives {want!r}")
                    q = (6 * lu).quantify().in_unit(unit)
                    wantq = float(mag) * b ** (6 * pv / k)
                    if abs(float(q.magnitude) - wantq) > 1e-9 * abs(wantq):
                        out.fail("C18:scenario:reference-table:l2q", f"{what}: 6 {lname} denotes {float(q.magnitude)!r} {uname}, definition gives {wantq!r}")
                    if not (0 * lu == m.approximately(mag * unit, 1e-9)):
                        out.fail("C18:scenario:reference-table:eq", f"{what}: level 0 does not compare equal to the reference")
                except Exception as e:  # noqa
                    out.fail(f"C18:scenario:reference-table:raises:{type(e).__name__}@{core.innermost_frame(e)}", f"{what}: {type(e).__name__}: {e}")
                if len(out.failures) > 6:
                    return
    out.classes.append("scenario:reference-table")
    out.nontrivial = "scenario|reference-table"
    out.sample = {"scenario": "reference-table", "levels_checked": n}


def _run_same_base_units(case, out):
    """reference and quantity are compound units of one dimension made of the SAME base units
    with different exponents (m^2/(ft.s) against ft^2/(m.s); W.s/h against W.h/s).  Such pairs lie
    outside the planner's sound domain, so the conversion is first checked against the size
    oracle; where it is right, the level must follow the definition."""
    from ..sizes import Sizes

    m = W.m
    U = m.Unit._by_name
    sz = Sizes(W, m.One)
    logs = {"decibel": m.Decibel, "bel": m.Bel, "neper": m.Neper, "octave": m.Octave}
    meter, foot, second, hour, watt, inch = (U[n] for n in ("meter", "foot", "second", "hour", "watt", "inch"))
    pairs = [
        (meter**2 / (foot * second), foot**2 / (meter * second), 2),
        (foot**2 / (meter * second), meter**2 / (foot * second), 2),
        (inch**2 / (foot * second), foot**2 / (inch * second), 2),
        (watt * second / hour, watt * hour / second, 1),
        (watt * hour / second, watt * second / hour, 1),
    ]
    n = 0
    for qu, ru, k in pairs:
        sq, sr = sz.unit_size(qu), sz.unit_size(ru)
        if sq is None or sr is None:
            continue
        for qmag, rmag in ((3, 2), (0.5, 10), (250.0, 1)):
            try:
                conv = float((qmag * qu).in_unit(ru).magnitude)
                sound = abs(conv - float(Fraction(qmag) * sq / sr)) <= 1e-9 * abs(conv)
            except Exception:  # noqa -- the planner's weaknesses outside D_ok are C04/C07's findings
                sound = False
            if not sound:
                out.classes.append("same-base-units:conversion-unsound-here")
                continue
            for lname, b, pv in SCENARIO_LOGS:
                what = f"{qmag} {qu} re {rmag} {ru} in {lname}"
                try:
                    lu = logs[lname][rmag * ru]
                    want = (k / pv) * math.log(float(Fraction(qmag) * sq / (Fraction(rmag) * sr))) / math.log(b)
                    lvl = lu.level(qmag * qu)
                    got = float(lvl.magnitude)
                    tol = 1e-9 * max(abs(want), (k / pv) / abs(math.log(b)))
                    if abs(got - want) > tol:
                        out.fail("C18:scenario:same-base-units:q2l", f"{what}: level is {got!r}, definition gives {want!r}")
                    else:
                        back = lvl.quantify()
                        sb = sz.unit_size(back.unit)
                        if sb is not None and abs(float(Fraction(back.magnitude) * sb) - float(Fraction(qmag) * sq)) > 1e-9 * abs(float(Fraction(qmag) * sq)):
                            out.fail("C18:scenario:same-base-units:l2q", f"{what}: the level quantifies to {back!r}, not the quantity it was taken of")
                    n += 1
                except Exception as e:  # noqa
                    out.fail(f"C18:scenario:same-base-units:raises:{type(e).__name__}@{core.innermost_frame(e)}", f"{what}: {type(e).__name__}: {e}")
    out.classes.append("scenario:same-base-units")
    if n:
        out.nontrivial = "scenario|same-base-units"
        out.sample = {"scenario": "same-base-units", "levels_checked": n}


def _run_user_units(case, out, sc):
    """quantities in units an application defines itself, in a fresh world:
    (offset-scale) a unit made with Dimension.scale -- gauge pressure, a biased voltage -- whose
    zero is not the zero of the quantity: the level is that of the absolute quantity;
    (redeclared) a unit whose equivalence is declared again with another ratio between two
    levels: the second level follows the new declaration."""
    from ..world import World, shared_world

    w2 = World(["si", "acoustics", "electronics"])
    m = w2.m
    U = m.Unit._by_name
    logs = {"decibel": m.Decibel, "bel": m.Bel, "neper": m.Neper, "octave": m.Octave}
    n = 0

    def check(tag, what, lu, q, si_value, ref_si, k, b, pv):
        """level of q (whose absolute SI value is si_value), back to a quantity, and equality"""
        nonlocal n
        try:
            want = (k / pv) * math.log(si_value / ref_si) / math.log(b)
            lvl = lu.level(q)
            got = float(lvl.magnitude)
            tol = 1e-9 * max(abs(want), (k / pv) / abs(math.log(b)))
            if abs(got - want) > tol:
                out.fail(f"C18:scenario:{tag}:q2l", f"{what}: level is {got!r}, definition gives {want!r}")
            back = float(lvl.quantify().unprefixed().magnitude)
            if abs(back - si_value) > 1e-9 * abs(si_value) and abs(got - want) <= tol:
                out.fail(f"C18:scenario:{tag}:l2q", f"{what}: the level quantifies to {back!r} SI, the quantity is {si_value!r} SI")
            again = float(lu.level(lvl.quantify().in_unit(q.unit)).magnitude)
            if abs(again - want) > tol and abs(got - want) <= tol:
                out.fail(f"C18:scenario:{tag}:roundtrip", f"{what}: level -> quantity in {q.unit} -> level gives {again!r}, definition {want!r}")
            # approximately() takes its tolerance relative to the *reading*, which means nothing
            # on a scale with its own zero: the equality clause is for ratio units only
            e1, e2 = (True, True) if sc == "offset-scale" else (lvl == m.approximately(q, 1e-9), m.approximately(q, 1e-9) == lvl)
            if not (e1 and e2) and abs(got - want) <= tol:
                out.fail(f"C18:scenario:{tag}:eq", f"{what}: the level does not compare equal to the quantity it was taken of ({e1}, {e2})")
            n += 1
        except Exception as e:  # noqa
            out.fail(f"C18:scenario:{tag}:raises:{type(e).__name__}@{core.innermost_frame(e)}", f"{what}: {type(e).__name__}: {e}")

    try:
        if sc == "offset-scale":
            gauge = m.Pressure.scale(101325 * U["pascal"], "vf18 gauge pascal", "vfPag")
            biased = m.Potential.scale(m.Quantity(2.5, U["volt"]), "vf18 biased volt", "vfVb")
            table = [(gauge, "pascal", 2, 2e-5, "micro", 20, 101325.0, (50000, 0, -50000, 250000.5, 1)),
                     (biased, "volt", 2, 1.0, "", 1, 2.5, (0, 1, -1.5, 10, 0.25))]
            for unit, refname, k, ref_si, refp, refmag, zero, readings in table:
                refunit = m.Prefix._by_name[refp] * U[refname] if refp else U[refname]
                for lname, b, pv in SCENARIO_LOGS:
                    lu = logs[lname][refmag * refunit]
                    for r in readings:
                        for pfx, pval in (("", 1.0), ("kilo", 1e3), ("milli", 1e-3)):
                            u = m.Prefix._by_name[pfx] * unit if pfx else unit
                            rr = r / pval
                            check(sc, f"{rr!r} {u} re {refmag} {refunit} in {lname}", lu, m.Quantity(rr, u), r + zero, ref_si, k, b, pv)
                            if len(out.failures) > 6:
                                return
        else:
            lamp = m.Power.unit("vf18 lamp", "vflamp")
            torr = m.Pressure.unit("vf18 torr", "vftorr")
            for lname, b, pv in SCENARIO_LOGS:
                lw = logs[lname][1 * U["watt"]]
                lp = logs[lname][20 * (m.Prefix._by_name["micro"] * U["pascal"])]
                for ratio_w, ratio_p in ((60, 133.3), (100, 101325 / 760), (40, 133.322368)):
                    lamp.equals(ratio_w * U["watt"])
                    torr.equals(ratio_p * U["pascal"])
                    for mag in (2, 0.5):
                        check(sc, f"{mag} lamp of {ratio_w} W in {lname}", lw, m.Quantity(mag, lamp), mag * ratio_w, 1.0, 1, b, pv)
                        check(sc, f"{mag} kilo-lamp of {ratio_w} W in {lname}", lw, m.Quantity(mag, m.Prefix._by_name["kilo"] * lamp), mag * ratio_w * 1e3, 1.0, 1, b, pv)
                        check(sc, f"{mag} torr of {ratio_p} Pa in {lname}", lp, m.Quantity(mag, torr), mag * ratio_p, 2e-5, 2, b, pv)
                    if len(out.failures) > 6:
                        return
    finally:
        shared_world()
    out.classes.append(f"scenario:{sc}")
    if n:
        out.nontrivial = f"scenario|{sc}"
        out.sample = {"scenario": sc, "levels_checked": n}


def enumerate_cases(tier):
    yield {"sc": "arith"}
    yield {"sc": "after-define"}
    yield {"sc": "offset-scale"}
    yield {"sc": "redeclared"}
    yield {"sc": "same-base-units"}
    yield {"sc": "reference-table"}
    for fam in ENUM_FAMILIES:
        for cls in sorted(TERMS):
            sp = TERMS[cls]
            if not sp:
                continue
            for i, lv in enumerate((-200, -7.5, 0, 1, 200)):
                yield {
                    "fam": fam,
                    "ref": [["i", 1] if i % 2 == 0 else ["f", 2.5], sp[i % len(sp)]],
                    "at": ["f", lv] if isinstance(lv, float) else ["i", lv],
                    "q": [None, sp[(i + 1) % len(sp)]],
                    "qat": float(-lv) / 2 + 3.0,
                    "q2": [0.5, i % 2 == 0, sp[(i + 2) % len(sp)]],
                }
    # the shipped logarithmic units: dBW, dBSPL (20 uPa), dBSWL (1 pW), dBSIL (1 pW/m^2), concert pitch (440 Hz)
    shipped = [
        (["named", "decibel"], ["i", 1], "watt", "milli:watt"),
        (["named", "decibel"], ["i", 20], "micro:pascal", "pascal"),
        (["named", "decibel"], ["i", 1], "pico:watt", "watt"),
        (["named", "decibel"], ["i", 1], "pico:watt meter^-2", "watt meter^-2"),
        (["named", "semitone"], ["i", 440], "hertz", "kilo:hertz"),
    ]
    for fam, mag, ru, qu in shipped:
        for lv in (-12, 0, 3, 20, 94, 120):
            yield {
                "fam": fam, "ref": [mag, parse_spelling(ru)], "at": ["i", lv],
                "q": [["f", 2.0], parse_spelling(qu)], "qat": float(lv) + 0.5,
                "q2": [1e-6, True, parse_spelling(ru)],
            }


# ------------------------------------------------------------------ diagnosis of wrong values
# The bucket of a wrong value names the wrong closed form that reproduces the observation
# (so that e.g. "k applied upside down" and "prefix applied upside down" are separate root
# causes); an observation no candidate explains is bucketed by the independent shape only.


def _shape(k, pb, b):
    return f"k{k}:" + ("noprefix" if not pb else "prefixed") + f":base{b}"


def _pick(cands, obs, k, pv, b):
    """names of all candidate wrong forms that reproduce the observation (relative 1e-6).
    Several forms can coincide on one input (k=2 with p=1/2: 'k upside down' = 'prefix upside
    down'); then the names are joined with '|' and post() merges such a bucket into the
    single unambiguous bucket of the run that it is compatible with."""
    hit = []
    for name, val in cands:
        if val != 0 and abs(obs - val) <= Decimal("1e-6") * abs(val) and name not in hit:
            hit.append(name)
    if not hit:
        return "unexplained:" + _shape(k, pv != 1, b)
    return "|".join(sorted(hit))


def diagnose_level(obs, ratio, k, pv, b, lnb, scales):
    ln_r = CTX.ln(D(ratio))
    kd, pd = D(Fraction(k)), D(pv)
    log_b = CTX.divide(ln_r, lnb)
    cands = []
    if k != 1:
        cands += [("k-inverted", log_b / kd / pd), ("k-ignored", log_b / pd)]
    if pv != 1:
        cands += [("prefix-inverted", kd * pd * log_b), ("prefix-ignored", kd * log_b)]
        if k != 1:
            cands += [("k-and-prefix-inverted", pd * log_b / kd)]
    if b != "10":
        cands.append(("base-ignored-10", kd / pd * ln_r / CTX.ln(Decimal(10))))
    if b != "e":
        cands.append(("base-ignored-e", kd / pd * ln_r))
    cands.append(("ratio-inverted", -(kd / pd * log_b)))
    for name, s in scales:
        if s != 1:
            cands.append((f"scale-{name}", kd / pd * CTX.divide(CTX.ln(D(ratio * s)), lnb)))
            cands.append((f"scale-1/{name}", kd / pd * CTX.divide(CTX.ln(D(ratio / s)), lnb)))
    return _pick(cands, obs, k, pv, b)


def diagnose_quantity(obs_ratio, level, k, pv, b, lnb, scales):
    """obs_ratio = observed SI value / exact SI value of the reference; candidates are
    compared on the logarithm (the exponent actually applied)"""
    kd, pd, ld = D(Fraction(k)), D(pv), D(level)
    right = ld * pd / kd * lnb
    cands = []
    if k != 1:
        cands += [("k-inverted", ld * pd * kd * lnb), ("k-ignored", ld * pd * lnb)]
    if pv != 1:
        cands += [("prefix-inverted", ld / pd / kd * lnb), ("prefix-ignored", ld / kd * lnb)]
        if k != 1:
            cands += [("k-and-prefix-inverted", ld / pd * kd * lnb)]
    if b != "10":
        cands.append(("base-ignored-10", ld * pd / kd * CTX.ln(Decimal(10))))
    if b != "e":
        cands.append(("base-ignored-e", ld * pd / kd))
    cands.append(("ratio-inverted", -right))
    for name, s in scales:
        if s != 1:
            cands.append((f"scale-{name}", right + CTX.ln(D(s))))
            cands.append((f"scale-1/{name}", right - CTX.ln(D(s))))
    try:
        ln_obs = CTX.ln(obs_ratio)
    except Exception:
        return "unexplained:" + _shape(k, pv != 1, b)
    return _pick(cands, ln_obs, k, pv, b)


def post(tier, col):
    """merge 'a|b' (ambiguous diagnosis) buckets into the unambiguous bucket of this run they
    are compatible with, when there is exactly one such bucket"""
    for bucket in sorted(col.buckets):
        head, _, names = bucket.rpartition(":")
        if "|" not in names or ":value" not in head:
            continue
        targets = [f"{head}:{n}" for n in names.split("|") if f"{head}:{n}" in col.buckets]
        if len(targets) == 1:
            col.bucket_counts[targets[0]] += col.bucket_counts.pop(bucket)
            del col.buckets[bucket]
            col.extra.setdefault("ambiguous_diagnoses_merged", {})[bucket] = targets[0]


# ------------------------------------------------------------------ the check
# Primary clauses (the two closed forms) get diagnosed buckets.  The derived clauses (round
# trips, monotonicity, == approximately) are consequences of the closed forms; each round
# trip is decomposed into two closed-form checks (the second one applied to the library's
# own intermediate result), and a derived clause gets a bucket of its own only in a case
# where no closed-form check failed -- so that one wrong formula is one root cause.


def _raised(out, clause, e, what):
    if isinstance(e, OverflowError):
        out.inconclusive = "float-range"
        return
    out.fail(f"C18:raises:{type(e).__name__}@{core.innermost_frame(e)}", f"[{clause}] {what} raised {type(e).__name__}: {e}")


def _si_of(out, clause, qty, dim, what):
    """exact SI value (Fraction) of a library Quantity, or None after recording why not"""
    if not isinstance(qty, W.m.Quantity):
        out.fail(f"C18:{clause}:type", f"{what} returned {type(qty).__name__}, not a Quantity")
        return None
    if is_float_range(qty.magnitude):
        out.inconclusive = "float-range"
        return None
    si = unit_si(qty.unit)
    if si is None:
        raise AssertionError(f"harness: result unit {qty.unit!r} has a factor outside the definitional table")
    if si[1] != dim:
        out.fail(f"C18:{clause}:dimension", f"{what} has dimension vector {si[1]}, the reference has {dim}")
        return None
    try:
        return Fraction(qty.magnitude) * si[0]
    except (TypeError, ValueError):
        out.fail(f"C18:{clause}:type", f"{what} has magnitude {qty.magnitude!r}")
        return None


def _level_mag(out, clause, lvl, what):
    """exact magnitude (Fraction) of a library Level, or None after recording why not"""
    if not isinstance(lvl, W.m.Level):
        out.fail(f"C18:{clause}:type", f"{what} returned {type(lvl).__name__}, not a Level")
        return None
    x = lvl.magnitude
    if isinstance(x, (float, Decimal)) and not (x == x and abs(x) != float("inf")):
        out.inconclusive = "float-range"
        return None
    try:
        return Fraction(x)
    except (TypeError, ValueError):
        out.fail(f"C18:{clause}:type", f"{what} has magnitude {x!r}")
        return None


def _eq_both(out, derived, variant, lvl, qty, what):
    bad = []
    for order in ("level==approx", "approx==level"):
        try:
            a = W.m.approximately(qty, 1e-9)
            res = (lvl == a) if order == "level==approx" else (a == lvl)
        except Exception as e:  # noqa
            _raised(out, f"eq:{variant}:{order}", e, what)
            continue
        if res is NotImplemented or not res:
            bad.append((order, res))
    if bad:
        orders = "both-orders" if len(bad) == 2 else bad[0][0]
        derived.append((f"C18:eq:{orders}", f"[{variant}] {what}: {lvl!r} vs approximately({qty!r}, 1e-9) compared {bad[0][1]!r}"))


def run_case(case) -> core.Outcome:
    out = core.Outcome()
    if isinstance(case, dict) and "sc" in case:
        if W is None:
            setup("quick")
        _run_scenario(case, out)
        return out
    # ---- validation (the shrinker may hand us anything)
    try:
        fam, ref, at, q, qat, q2 = case["fam"], case["ref"], case["at"], case["q"], case["qat"], case["q2"]
        params = family_params(fam)
        ok = (
            params is not None
            and isinstance(ref, list) and len(ref) == 2 and num_ok(ref[0]) and terms_ok(ref[1])
            and num_ok(at)
            and isinstance(q, list) and len(q) == 2 and (q[0] is None or num_ok(q[0])) and terms_ok(q[1])
            and isinstance(qat, float) and math.isfinite(qat) and abs(qat) <= 200
            and isinstance(q2, list) and len(q2) == 3 and isinstance(q2[0], float) and math.isfinite(q2[0])
            and 0 < q2[0] <= 1e3 and isinstance(q2[1], bool) and terms_ok(q2[2])
        )
        if ok:
            dim = terms_dim(ref[1])
            ok = dim in DIMCLASS and terms_dim(q[1]) == dim and terms_dim(q2[2]) == dim
        if ok:
            rm = num_exact(ref[0])
            lv = num_exact(at)
            ok = Fraction(1, 10**12) <= rm <= 10**6 and abs(lv) <= 200
            if ok and q[0] is not None:
                ok = Fraction(1, 10**12) <= num_exact(q[0]) <= 10**6
    except Exception:
        ok = False
    if not ok:
        out.invalid = True
        return out

    label, b, pb, pe = params
    cls, k = DIMCLASS[dim]
    pv = Fraction(pb) ** pe if pb else Fraction(1)
    lnb = ln_base(b)
    size_ref, size_q, size_q2 = terms_size(ref[1]), terms_size(q[1]), terms_size(q2[2])
    ref_si = rm * size_ref  # exact Fraction
    floor = CTX.divide(CTX.divide(D(Fraction(k)), D(pv)), abs(lnb))  # level equivalent of a relative 1 in the quantity
    scales = [("refunit", size_ref), ("qunit", size_q), ("qunit/refunit", size_q / size_ref)]
    ref_txt = f"{label}[{num_value(ref[0])!r} {spell(ref[1])}]"
    derived = []  # (bucket, detail) of derived clauses; reported only if no closed-form check failed

    def level_tol(le):
        return TOL * max(abs(le), floor)

    def check_quantity(level, qty, what):
        """closed form R*b**(L*p/k) against a library Quantity; returns its exact SI value"""
        si = _si_of(out, "l2q", qty, dim, what)
        if si is None:
            return None
        want = CTX.multiply(D(ref_si), exact_ratio(level, k, pv, lnb))
        if si <= 0 or not close(D(si), want):
            diag = diagnose_quantity(D(si / ref_si), level, k, pv, b, lnb, scales) if si > 0 else "nonpositive"
            out.fail(f"C18:l2q:value:{diag}",
                     f"{what} = {qty.magnitude!r} {qty.unit} = {D(si):.15E} SI, closed form {want:.15E} SI (k={k}, p={pv}, base={b})")
        return si

    def check_level(q_si, lvl, what):
        """closed form (k/p)*log_b(Q/R) against a library Level; returns its exact magnitude"""
        lm = _level_mag(out, "q2l", lvl, what)
        if lm is None:
            return None
        want = exact_level(q_si / ref_si, k, pv, lnb)
        if abs(D(lm) - want) > level_tol(want):
            diag = diagnose_level(D(lm), q_si / ref_si, k, pv, b, lnb, scales)
            out.fail(f"C18:q2l:value:{diag}", f"{what} = {lvl.magnitude!r}, closed form {want:.15E} (k={k}, p={pv}, base={b})")
        return lm

    def finish():
        if derived and not out.inconclusive and not any(":value:" in f.bucket for f in out.failures):
            for bucket, detail in derived:
                out.fail(bucket, detail)
        return out

    out.classes += [f"family:{label}" if label in NAMED else f"family:generated-base-{b}", f"class:{cls}", f"k{k}",
                    "family-kind:" + fam[0], f"prefix:{pb}^{pe}" if pb else "prefix:none",
                    f"num:ref:{ref[0][0]}", f"num:level:{at[0]}"]
    same_units = spell(ref[1]) == spell(q[1])
    if b != "10" or (pb, pe) != (10, -1) or k == 2 or not same_units:
        out.nontrivial = f"{label}|{cls}|{spell(ref[1])}|{spell(q[1])}"
        out.sample = {"family": label, "class": cls, "k": k, "reference": f"{num_value(ref[0])} {spell(ref[1])}",
                      "level": str(num_value(at)), "quantity_unit": spell(q[1])}

    # ---- build the library objects
    try:
        lg = build_logarithm(fam, params)
        ref_q = num_value(ref[0]) * build_unit(ref[1])
        lu = lg[ref_q]
        q_unit, q2_unit = build_unit(q[1]), build_unit(q2[2])
    except Exception as e:  # noqa
        _raised(out, "build", e, ref_txt)
        return out

    # ================= level -> quantity (-> level)
    lnum = num_value(at)
    what = f"({lnum!r} * {ref_txt}).quantify()"
    got_q = lvl_obj = None
    try:
        lvl_obj = lnum * lu
        got_q = lvl_obj.quantify()
    except Exception as e:  # noqa
        _raised(out, "l2q", e, what)
    if got_q is not None:
        got_si = check_quantity(lv, got_q, what)
        if got_si is not None:
            out.classes.append("clause:l2q")
        if got_si is not None and not (Fraction(1, 10**300) <= got_si <= 10**300):
            out.inconclusive = "float-range"
        elif got_si is not None:
            try:
                back = lu.level(got_q)
                bm = check_level(got_si, back, f"{ref_txt}.level({what})")
                if bm is not None:
                    out.classes.append("clause:l2q2l")
                    if abs(D(bm) - D(lv)) > level_tol(D(lv)):
                        derived.append(("C18:l2q2l:roundtrip", f"{what} -> level gives {back.magnitude!r}, started from {lnum!r}"))
            except Exception as e:  # noqa
                _raised(out, "l2q2l", e, f"{ref_txt}.level({what})")
        # the level compares equal to the quantity it denotes (oracle's quantity, written in the q unit)
        try:
            oracle_mag = float(CTX.divide(CTX.multiply(D(ref_si), exact_ratio(lv, k, pv, lnb)), D(size_q)))
        except (OverflowError, ValueError):
            oracle_mag = 0.0
        if math.isfinite(oracle_mag) and oracle_mag > 0:
            out.classes.append("clause:eq-level")
            _eq_both(out, derived, "given level vs closed-form quantity", lvl_obj, oracle_mag * q_unit, f"{lnum!r} {ref_txt}")

    # ================= quantity -> level (-> quantity)
    if q[0] is not None:
        qnum = num_value(q[0])
        out.classes.append(f"num:q:{q[0][0]}")
    else:
        # place the quantity at level qat (approximately; the exact level is recomputed from the float)
        r = exact_ratio(Fraction(qat), k, pv, lnb)
        qnum = float(CTX.divide(CTX.multiply(D(ref_si), r), D(size_q)))
        out.classes.append("num:q:placed")
    if not (isinstance(qnum, (int, Decimal)) or (math.isfinite(qnum) and qnum > 0)):
        out.inconclusive = "float-range"
        return finish()
    q_si = Fraction(qnum) * size_q
    want_l = exact_level(q_si / ref_si, k, pv, lnb)
    if abs(want_l) > 200:
        out.excluded.append("level-outside-200")
        return finish()
    qty = qnum * q_unit
    what = f"{ref_txt}.level({qnum!r} {spell(q[1])})"
    got_l = None
    try:
        got_l = lu.level(qty)
    except Exception as e:  # noqa
        _raised(out, "q2l", e, what)
    l1 = check_level(q_si, got_l, what) if got_l is not None else None
    if l1 is not None:
        out.classes.append("clause:q2l")
        if abs(l1) <= 201:
            try:
                back_q = got_l.quantify()
                back_si = check_quantity(l1, back_q, f"({what}).quantify()")
                if back_si is not None:
                    out.classes.append("clause:q2l2q")
                    if back_si <= 0 or not close(D(back_si), D(q_si)):
                        derived.append(("C18:q2l2q:roundtrip",
                                        f"{what} -> quantify gives {back_q.magnitude!r} {back_q.unit} = {D(back_si):.15E} SI, started from {D(q_si):.15E} SI"))
            except Exception as e:  # noqa
                _raised(out, "q2l2q", e, f"({what}).quantify()")
        # the library's own level compares equal to the quantity
        out.classes.append("clause:eq-own")
        _eq_both(out, derived, "library's level vs the quantity", got_l, qty, what)
    # the level the closed form gives compares equal to the quantity
    out.classes.append("clause:eq-quantity")
    _eq_both(out, derived, "closed-form level vs the quantity", float(want_l) * lu, qty, f"{float(want_l)!r} {ref_txt}")

    # ================= strict monotonicity
    rel, up, _ = q2
    factor = Fraction(1) + Fraction(rel) if up else 1 / (Fraction(1) + Fraction(rel))
    q2num = float(CTX.divide(D(q_si * factor), D(size_q2)))
    if not (math.isfinite(q2num) and q2num > 0):
        out.inconclusive = "float-range"
        return finish()
    q2_si = Fraction(q2num) * size_q2
    want_l2 = exact_level(q2_si / ref_si, k, pv, lnb)
    apart = abs(q2_si / q_si - 1)
    if abs(want_l2) > 200:
        out.excluded.append("level-outside-200")
    elif apart <= Fraction(1, 10**9):
        out.classes.append("monotone:tie-skipped")
    elif l1 is not None:
        what2 = f"{ref_txt}.level({q2num!r} {spell(q2[2])})"
        try:
            got_l2 = lu.level(q2num * q2_unit)
            l2 = _level_mag(out, "monotone", got_l2, what2)
            if l2 is not None:
                out.classes.append("clause:monotone")
                if (q2_si > q_si) != (l2 > l1) or l2 == l1:
                    derived.append(("C18:monotone",
                                    f"quantities {D(q_si):.12E} and {D(q2_si):.12E} SI ({float(apart):.3g} apart) have levels {got_l.magnitude!r} and {got_l2.magnitude!r}"))
        except Exception as e:  # noqa
            _raised(out, "monotone", e, what2)
    return finish()


def still_fails(case, bucket):
    return any(f.bucket == bucket for f in run_case(case).failures)


def vacuity(col):
    need = [f"family:{n}" for n in sorted(NAMED)] + ["family-kind:gen", "k1", "k2"]
    need += [f"class:{c}" for c in sorted(SPELLINGS)]
    need += [f"clause:{c}" for c in ("l2q", "l2q2l", "q2l", "q2l2q", "monotone", "eq-level", "eq-own", "eq-quantity")]
    need += ["num:ref:i", "num:ref:f", "num:ref:d", "num:level:i", "num:level:f", "num:level:d"]
    return [n for n in need if not col.classes.get(n)]
