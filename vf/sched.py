"""Deterministic line-granularity thread scheduler (DESIGN §4 C20).

A handful of Python threads is run under ``sys.settrace``; the harness -- not the
interpreter -- decides which thread executes next.  Every *decision point* (in ``line`` mode:
every ``line`` event inside the target source file; in ``window`` mode: only the lines of the
check-then-insert windows of the chosen interning constructors) parks the thread and hands
control back to the scheduler, which releases exactly one thread, chosen by the next integer
of ``schedule`` (``alive[c % len(alive)]``; exhausted list -> round robin).  Exactly one
thread runs at any time, so an execution is a pure function of (thunks, schedule) and replays
exactly.  Nothing here reads the clock for a decision; the only use of time is the time-out on
the hand-over semaphores, which turns a deadlock of the harness into ``HarnessDeadlock``
(exit 2 in the runner) -- never into a property violation.

The check-then-insert windows are located by *inspecting the source* of the ``__new__``
methods (ast), not by hard-coded line numbers: the membership test is the ``if <key> in
cls._known`` statement, the insertion is the statement that stores into / calls ``setdefault``
on ``cls._known``.
"""
from __future__ import annotations

import ast
import inspect
import os
import sys
import textwrap
import threading
from typing import Any, Callable, Dict, List, Optional, Sequence, Tuple

HANDOVER_TIMEOUT = 30.0  # seconds; only ever decides "harness error", never a verdict


class HarnessDeadlock(RuntimeError):
    """A hand-over did not happen within HANDOVER_TIMEOUT (harness fault -> exit 2)."""


class _Abort(BaseException):
    """Raised inside a scheduled thread to unwind it after the scheduler gave up."""


def _held_lock():
    lock = threading.Lock()
    lock.acquire()
    return lock


class _Worker(threading.Thread):
    """A persistent thread that runs one scheduled thunk per job.  Creating a thread per case
    costs milliseconds on a loaded machine; a parked worker costs one futex wake-up."""

    def __init__(self, index: int):
        super().__init__(daemon=True, name=f"vf-sched-{index}")
        self.job = _held_lock()
        self.task: Optional[Callable[[], None]] = None
        self.start()

    def run(self) -> None:
        while True:
            self.job.acquire()
            task, self.task = self.task, None
            if task is None:
                continue
            try:
                task()
            except BaseException:  # the task reports through the Scheduler; never kill the worker
                pass


_WORKERS: List[_Worker] = []


def _workers(n: int) -> List[_Worker]:
    while len(_WORKERS) < n:
        _WORKERS.append(_Worker(len(_WORKERS)))
    return _WORKERS[:n]


def _forget_workers() -> None:
    del _WORKERS[:]


if hasattr(os, "register_at_fork"):
    os.register_at_fork(after_in_child=_forget_workers)  # threads do not survive fork()


class Window:
    """The check-then-insert window of one interning ``__new__``.

    test    line of the membership test (``if key in cls._known``)
    insert  line of the insertion (``cls._known[key] = self`` or ``... .setdefault(key, self)``)
    exits   lines of ``return`` statements other than the insertion itself (a thread parked
            there has left the window: it is on a path that never inserts)
    """

    __slots__ = ("cls_name", "code", "test", "insert", "exits", "first", "last")

    def __init__(self, cls_name, code, test, insert, exits, first, last):
        self.cls_name = cls_name
        self.code = code
        self.test = test
        self.insert = insert
        self.exits = frozenset(exits)
        self.first = first
        self.last = last

    def is_open_at(self, lineno: int) -> bool:
        """True when a thread *parked at* lineno (it has executed everything before it) has
        performed the membership test and not yet performed the insertion."""
        return self.test < lineno <= self.insert and lineno not in self.exits

    def is_window_line(self, lineno: int) -> bool:
        """Lines whose relative order between threads constitutes 'an interleaving of the
        __new__ bodies': the test, everything up to the insertion, the insertion."""
        return self.test <= lineno <= self.insert

    def describe(self) -> dict:
        return {"class": self.cls_name, "test_line": self.test, "insert_line": self.insert,
                "other_return_lines": sorted(self.exits)}


def _mentions_known(node: ast.AST) -> bool:
    return any(isinstance(n, ast.Attribute) and n.attr == "_known" for n in ast.walk(node))


def coarse_window(cls) -> Window:
    """Fallback when the check-then-insert shape of ``cls.__new__`` cannot be recognised in
    the source (the interning was refactored): the whole body of __new__ counts as the
    window, so that 'a switch while a thread is inside __new__' is still measurable."""
    fn = cls.__dict__["__new__"]
    fn = getattr(fn, "__func__", fn)
    lines, first = inspect.getsourcelines(fn)
    tree = ast.parse(textwrap.dedent("".join(lines)))
    body = tree.body[0].body
    off = first - 1
    start = body[0].lineno + off
    end = max(getattr(n, "end_lineno", n.lineno) for n in ast.walk(tree.body[0]) if hasattr(n, "lineno")) + off
    w = Window(cls.__name__, fn.__code__, start - 1, end, [], first, first + len(lines) - 1)
    return w


def find_window(cls) -> Window:
    """Locates the membership test and the insertion in ``cls.__new__`` from its source."""
    fn = cls.__dict__["__new__"]
    fn = getattr(fn, "__func__", fn)
    code = fn.__code__
    lines, first = inspect.getsourcelines(fn)
    tree = ast.parse(textwrap.dedent("".join(lines)))
    off = first - 1
    tests: List[int] = []
    inserts: List[int] = []
    returns: List[int] = []
    for node in ast.walk(tree):
        if isinstance(node, ast.If) and isinstance(node.test, ast.Compare):
            cmp = node.test
            if any(isinstance(op, ast.In) for op in cmp.ops) and any(_mentions_known(c) for c in cmp.comparators):
                tests.append(node.lineno + off)
        if isinstance(node, ast.Call) and isinstance(node.func, ast.Attribute) and node.func.attr == "get" and _mentions_known(node.func.value):
            # the lookup form of the membership test:  known = cls._known.get(key)
            tests.append(node.lineno + off)
        if isinstance(node, ast.Assign):
            if any(isinstance(t, ast.Subscript) and _mentions_known(t.value) for t in node.targets):
                inserts.append(node.lineno + off)
        if isinstance(node, ast.Call) and isinstance(node.func, ast.Attribute) and node.func.attr == "setdefault" and _mentions_known(node.func.value):
            inserts.append(node.lineno + off)
        if isinstance(node, ast.Return):
            returns.append(node.lineno + off)
    tests = sorted(set(tests))
    if len(tests) != 1 or not inserts:
        raise HarnessDeadlock(
            f"cannot locate the check-then-insert window of {cls.__name__}.__new__ "
            f"(membership tests at {tests}, insertions at {inserts}); the scheduler needs "
            f"an update for this source"
        )
    test = tests[0]
    insert = max(inserts)
    if insert <= test:
        raise HarnessDeadlock(f"{cls.__name__}.__new__: insertion (line {insert}) precedes the membership test (line {test})")
    exits = [r for r in returns if test < r < insert]
    return Window(cls.__name__, code, test, insert, exits, first, first + len(lines) - 1)


class Scheduler:
    """Runs ``thunks`` (zero-argument callables) in one thread each under harness control.

    mode "line":   every ``line`` event in ``target_file`` is a decision point.
    mode "window": only ``line`` events on window lines of the ``focus`` classes' ``__new__``
                   are decision points; everything else runs without a switch.

    At every decision point the scheduling procedure ``_decide`` runs (consuming one integer of
    the schedule) and names the thread that executes next.  The procedure is executed by the
    thread that has just parked -- it is the only thread running, so this is the same
    sequential scheduler as a separate scheduler thread would be -- and an OS-level hand-over
    (release the chosen thread's semaphore, block on one's own) happens only when the choice
    names a *different* thread; this halves the context switches, which dominate the cost.

    After ``run()``:
      results      per thread: the thunk's value, or the exception instance it raised
      raised       per thread: bool
      decisions    list of (number of runnable threads, index chosen) per decision point
      order        list of thread indices in the order they were released
      trace        list of (thread, qualname, lineno) for line events in functions whose name
                   is in ``trace_names`` (default: __new__/_multiply/_divide)
      window_switches  {class name: number of decision points at which a thread was chosen
                   while *another* thread was parked between the membership test and the
                   insertion of that class's __new__}
      entered      {class name: number of times a thread passed the membership test on the
                   inserting path}
      steps        number of decision points
    """

    def __init__(
        self,
        thunks: Sequence[Callable[[], Any]],
        schedule: Sequence[int],
        target_file: str,
        windows: Dict[Any, Window],
        mode: str = "line",
        focus: Optional[Sequence[str]] = None,
        trace_names: Sequence[str] = ("__new__", "_multiply", "_divide"),
        timeout: float = HANDOVER_TIMEOUT,
        max_steps: int = 200000,
    ):
        if mode not in ("line", "window"):
            raise ValueError(mode)
        self.thunks = list(thunks)
        self.n = len(self.thunks)
        self.schedule = [int(c) for c in schedule]
        self.target = target_file
        self.windows = windows  # code object -> Window
        self.mode = mode
        self.focus = set(focus) if focus is not None else {w.cls_name for w in windows.values()}
        self.trace_names = set(trace_names)
        self.timeout = timeout
        self.max_steps = max_steps

        # binary semaphores: raw locks, created held; release() = signal, acquire() = wait
        self.go = [_held_lock() for _ in range(self.n)]
        self.finished = _held_lock()
        self.done = [False] * self.n
        self.results: List[Any] = [None] * self.n
        self.raised = [False] * self.n
        self.abort = False
        self.error: Optional[BaseException] = None

        self.trace: List[Tuple[int, str, int]] = []
        self.decisions: List[Tuple[int, int]] = []
        self.order: List[int] = []
        self.steps = 0
        self.lines_seen = 0
        self._k = 0
        self._last = -1
        # per thread: stack of [frame id, Window, currently open?]
        self._open: List[List[list]] = [[] for _ in range(self.n)]
        self.window_switches: Dict[str, int] = {}
        self.entered: Dict[str, int] = {}

    # ------------------------------------------------------------------ the scheduling procedure

    def _decide(self) -> int:
        """Names the thread that runs next (-1: none left).  Only ever executed by the one
        thread that is currently running, so it needs no locking."""
        alive = [i for i in range(self.n) if not self.done[i]]
        if not alive:
            return -1
        if self._k < len(self.schedule):
            idx = self.schedule[self._k] % len(alive)
        else:  # round robin: the next runnable thread after the one that ran last
            later = [a for a in alive if a > self._last]
            idx = alive.index(later[0]) if later else 0
        self._k += 1
        i = alive[idx]
        self.decisions.append((len(alive), idx))
        self.order.append(i)
        for j in alive:
            if j != i:
                for _fid, w, is_open in self._open[j]:
                    if is_open:
                        self.window_switches[w.cls_name] = self.window_switches.get(w.cls_name, 0) + 1
        self._last = i
        self.steps += 1
        if self.steps > self.max_steps:
            raise HarnessDeadlock(f"more than {self.max_steps} scheduling steps")
        return i

    def _fail(self, exc: BaseException) -> None:
        if self.error is None:
            self.error = exc
        self.abort = True
        try:
            self.finished.release()
        except RuntimeError:
            pass

    # ------------------------------------------------------------------ inside the threads

    def _wait_turn(self, i: int) -> None:
        if not self.go[i].acquire(timeout=self.timeout):
            self._fail(HarnessDeadlock(
                f"thread {i} was not given a turn within {self.timeout}s after {self.steps} steps "
                f"(the running thread is blocked, e.g. on a lock held by a parked thread?)"
            ))
            raise _Abort()
        if self.abort:
            raise _Abort()

    def _decision_point(self, i: int) -> None:
        try:
            j = self._decide()
        except HarnessDeadlock as e:
            self._fail(e)
            raise _Abort()
        if j == i:
            return
        self.go[j].release()
        self._wait_turn(i)

    def _make_tracer(self, i: int):
        windows = self.windows
        trace_names = self.trace_names
        line_mode = self.mode == "line"
        focus = self.focus
        stack = self._open[i]

        def local(frame, event, arg):
            code = frame.f_code
            if event == "line":
                self.lines_seen += 1
                lineno = frame.f_lineno
                if code.co_name in trace_names:
                    self.trace.append((i, getattr(code, "co_qualname", code.co_name), lineno))
                w = windows.get(code)
                decision = line_mode
                if w is not None:
                    fid = id(frame)
                    if not stack or stack[-1][0] != fid:
                        stack.append([fid, w, False])
                    was_open = stack[-1][2]
                    now_open = w.is_open_at(lineno)
                    stack[-1][2] = now_open
                    if now_open and not was_open:
                        self.entered[w.cls_name] = self.entered.get(w.cls_name, 0) + 1
                    if not line_mode and w.cls_name in focus and w.is_window_line(lineno):
                        decision = True
                if decision:
                    self._decision_point(i)
            elif event == "return":
                if stack and stack[-1][0] == id(frame):
                    stack.pop()
            return local

        harness = os.path.dirname(os.path.abspath(__file__))

        def glob(frame, event, arg):
            fn = frame.f_code.co_filename
            if fn == self.target:
                return local
            # Python-level library code called *from* the code under test (a dict subclass's
            # setdefault, typing.cast ...) is part of the same critical sections: its lines are
            # decision points too.  Frames of the harness and of threading itself are not.
            if fn.startswith(harness) or fn.endswith("threading.py") or fn.startswith("<"):
                return None
            back, depth = frame.f_back, 0
            while back is not None and depth < 6:
                if back.f_code.co_filename == self.target:
                    return local
                back, depth = back.f_back, depth + 1
            return None

        return glob

    def _run_thread(self, i: int) -> None:
        try:
            self._wait_turn(i)
        except _Abort:
            self.done[i] = True
            return
        try:
            sys.settrace(self._make_tracer(i))
            try:
                self.results[i] = self.thunks[i]()
            except _Abort:
                self.results[i] = None
            except BaseException as e:  # the library raised: an observation, not a harness fault
                self.results[i] = e
                self.raised[i] = True
            finally:
                sys.settrace(None)
        finally:
            self.done[i] = True
            del self._open[i][:]
            if not self.abort:
                try:
                    j = self._decide()
                    if j < 0:
                        self.finished.release()
                    else:
                        self.go[j].release()
                except HarnessDeadlock as e:
                    self._fail(e)

    # ------------------------------------------------------------------ driver

    def run(self) -> List[Any]:
        workers = _workers(self.n)
        for i, wk in enumerate(workers):
            wk.task = (lambda i=i: self._run_thread(i))
            wk.job.release()
        try:
            j = self._decide()
            if j >= 0:
                self.go[j].release()
                if not self.finished.acquire(timeout=self.timeout * 4):
                    raise HarnessDeadlock(f"the run did not finish within {self.timeout * 4}s ({self.steps} steps)")
            if self.error is not None:
                raise self.error
        except BaseException:
            self.abort = True
            _forget_workers()  # they may be stuck; the next run (if any) gets new ones
            for s in self.go:
                try:
                    s.release()
                except RuntimeError:
                    pass
            raise
        return self.results


class ScheduleTree:
    """Depth-first walk over *all* schedules of a decision tree whose shape is only discovered
    by running.  Protocol::

        tree = ScheduleTree(); prefix = tree.first()
        while prefix is not None:
            decisions = <run with schedule=prefix, read Scheduler.decisions>
            prefix = tree.next(decisions)

    ``decisions`` is the (number of options, index chosen) list of the execution; choices
    beyond the prefix are whatever the scheduler's default was (they are remembered as the
    first alternative tried at that depth, the others follow cyclically).  Every leaf of the
    tree is executed exactly once; ``leaves`` counts them.  The caller must make every
    execution start from an equivalent state (the walk checks that the tree does not change
    shape under a common prefix)."""

    def __init__(self, limit: int = 1000000):
        self.prefix: Optional[List[int]] = []
        self.start: List[int] = []
        self.leaves = 0
        self.limit = limit
        self.complete = False

    def first(self) -> Optional[List[int]]:
        return list(self.prefix)

    def next(self, decisions: Sequence[Tuple[int, int]]) -> Optional[List[int]]:
        prefix = self.prefix
        self.leaves += 1
        if self.leaves > self.limit:
            raise HarnessDeadlock(f"schedule tree has more than {self.limit} leaves")
        full = [idx for (_n, idx) in decisions]
        if len(full) < len(prefix) or full[: len(prefix)] != [p % decisions[d][0] for d, p in enumerate(prefix)]:
            raise HarnessDeadlock("schedule tree changed shape between executions (not deterministic)")
        del self.start[len(prefix):]
        self.start.extend(full[len(prefix):])
        j = len(decisions) - 1
        while j >= 0 and (full[j] + 1) % decisions[j][0] == self.start[j]:
            j -= 1  # every alternative at depth j has been explored
        if j < 0:
            self.prefix = None
            self.complete = True
            return None
        self.prefix = full[:j] + [(full[j] + 1) % decisions[j][0]]
        return list(self.prefix)
