"""Runs every registered check's quick (or thorough) command and prints a summary table."""
import json, subprocess, sys, time, os
root = os.path.dirname(os.path.dirname(os.path.abspath(__file__)))
tier = sys.argv[1] if len(sys.argv) > 1 else "quick"
seeds = sys.argv[2:] or [os.environ.get("VERIF_SEED", "1")]
man = json.load(open(os.path.join(root, "MANIFEST.json")))
bad = 0
for seed in seeds:
    for c in man["checks"]:
        cmd = c["quick_cmd"] if tier == "quick" else c["thorough_cmd"]
        t0 = time.time()
        p = subprocess.run(cmd, shell=True, cwd=root, capture_output=True, text=True, env=dict(os.environ, VERIF_SEED=str(seed)))
        dt = time.time() - t0
        viol = [l for l in p.stdout.splitlines() if l.startswith("VIOLATION")]
        known = sum(1 for l in p.stdout.splitlines() if l.startswith("KNOWN-FINDING"))
        status = "ok" if p.returncode == 0 and not viol else "FAIL"
        if status != "ok":
            bad += 1
        print(f"{c['property_id']} seed={seed} exit={p.returncode} {status} {dt:6.1f}s known={known} {' | '.join(viol)[:200]}", flush=True)
        if status != "ok":
            print("   ", (p.stdout + p.stderr)[-600:].replace("\n", "\n    "))
sys.exit(1 if bad else 0)
