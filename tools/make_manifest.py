"""Regenerates MANIFEST.json from the table below (kept in one place so that the file
is always schema-valid and every property is either claimed or listed not_applicable)."""
import json
import os

ROOT = os.path.dirname(os.path.dirname(os.path.abspath(__file__)))

PY = "PYTHONHASHSEED=0 PYTHONPATH=/verif/.deps /venv/bin/python -m vf"

# id -> (technique, level text, level note, design ref)
CHECKS = {
    "C02": (
        "Hypothesis expression-tree generation with law-rewriting (exponents up to beyond 2**53; read-only observations - as_ratio, format, str, hash, quantify, deepcopy - of relatives of the sub-expressions made before evaluation); free-abelian-group normal-form oracle; object identity",
        "Exploration: generated pairs of expression trees (half of them constructed to be equal by group-law rewriting) are evaluated by the library and by an independent normal-form model; identity, factors, prefix and dimension must agree. No absence claim.",
        "Trusts the definitional structure of each named unit as read once at start-up; identity only required within one prefix base (the property's own qualification).",
        "§4 C02, §2.6",
    ),
    "C09": (
        "exhaustive enumeration of all intercepted declarations and named units, repeated for import-order configurations and for modules imported under a coarse decimal context; exact rational spanning-forest size oracle (cycle residuals); library conversion vs oracle",
        "Exploration with an exhaustively enumerated finite space: every shipped equals() declaration is either a tree edge or closes a fundamental cycle whose exact residual is checked (all cycles are sums of these), every named unit is converted to and from its coherent SI unit and compared with the exact size ratio, and the declared set is re-derived under different first-imported modules.",
        "A unit with a single declaration and a wrong constant is undetectable by mutual consistency. Exact arithmetic: float literals are taken as the exact binary values written.",
        "§4 C09, §2.5",
    ),
    "C04": (
        "Hypothesis constructive generation inside the shape-defined domain D_ok + synthetic exactly-consistent unit systems in fresh worlds + pinned corpus; exact rational size oracle from intercepted declarations",
        "Exploration: generated conversions (constructed inside the planner's sound domain D_ok, unrestricted shapes for statistics, synthetic worlds with redundant consistent definitions, pinned corpus outside D_ok) are compared with magnitude x size ratio solved exactly from the declarations; result unit identity checked. Failures outside D_ok are the recorded K-PLAN finding; inside D_ok / synthetic / pinned they are violations.",
        "Sizes come from the declarations as written (float literals taken exactly). Pairs not determined by declarations are not asserted on. Cases whose exact intermediates leave 1e+-250 are inconclusive.",
        "§4 C04, §2.5, §2.7, §2.8",
    ),
    "C05": (
        "Hypothesis metamorphic testing over unit triples: linearity, zero, sign, self-conversion (all shapes); round trip and route independence (D_ok, synthetic worlds, pinned corpus)",
        "Exploration: metamorphic relations need no expected value, so linearity/zero/sign/self-conversion are enforced over the whole shape space whenever conversions return; round trip and A->C->B = A->B are enforced inside D_ok, on synthetic exactly-consistent worlds and on the pinned corpus.",
        "Tolerances per DESIGN 2.9; relations only when all conversions involved returned.",
        "§4 C05",
    ),
    "C06": (
        "Hypothesis metamorphic testing: operands re-expressed by the exact oracle in other units/prefixes (incl. mixed SI/IEC); SI value of + - * / ** and truth of == < compared with exact rational arithmetic",
        "Exploration: each operand is replaced by an oracle-computed equal quantity in another unit; SI values of results and truth values away from ties must not change. * / ** are checked on all shapes, + - == < with unit pairs inside D_ok.",
        "Ties (exact values closer than the applicable tolerance) get no order/equality clause; magnitudes outside 1e+-60 are inconclusive.",
        "§4 C06",
    ),
    "C07": (
        "Hypothesis generation of convertible, disconnected and partially connected pairs (shipped, synthetic worlds, long chains; impossible pairs also met through Level and Measurement operands) + differential execution of the same case list under python and python -O in fresh subprocesses",
        "Exploration + differential: only ConversionNotFound may escape in_unit/+/-, == is a bool, ordering may raise TypeError; records of python vs python -O must be identical. AssertionError outside D_ok and RecursionError on chains >= 400 are recorded findings (exact call sites); anything else, or anything inside D_ok, is a violation.",
        "Outcome records compare exception class + innermost frame or repr(magnitude) + str(unit).",
        "§4 C07",
    ),
    "C10": (
        "exhaustive 12 pairs x 30 x 30 prefix grid with a fixed magnitude table + Hypothesis magnitudes + enumeration of the command line's own listing (measured.cli) for every scale x prefix; closed-form Fraction oracle (273.15, 459.67 exact)",
        "Exploration with an exhaustively enumerated (pair, prefix, prefix) grid: direct value, round trip, absolute zero, differences, == and < across scales against exact affine formulas.",
        "Tolerance 1e-9 x the largest magnitude the temperature takes along the celsius-kelvin-rankine-fahrenheit path; ties get only consistency clauses.",
        "§4 C10",
    ),
    "C14": (
        "Hypothesis + enumerated grid over operators, sign patterns, sigma=0, operand kinds, n in [-4,4], int/float/Decimal, unit re-expression (length, mass, time, frequency and information families; SI and IEC prefixes, mixed-base prefixes included); analytic partial-derivative oracle in Fractions with 50-digit square root",
        "Exploration: measurand and first-order Gaussian uncertainty of + - * / ** compared with an exact analytic oracle; non-negativity, plain-quantity-as-zero-sigma and unit independence clauses.",
        "rel 1e-9 (2e-5 / 4e-5 where + - convert between different base units over shipped definitions).",
        "§4 C14",
    ),
    "C18": (
        "Hypothesis + enumerated grid over logarithm families (shipped and generated prefix x base), 12 dimension classes, unit spellings + enumerated scenarios (level arithmetic, Dimension.define, offset scales, re-declaration, same-base-unit pairs, tables of close / mixed-type / hash-colliding references); closed-form 50-digit Decimal oracle",
        "Exploration: level of a quantity, quantity of a level, both round trips, strict monotonicity and level == approximately(quantity) in both orders against the logarithmic definition with independently tabulated unit sizes and root-power dimensions.",
        "Level tolerance 1e-9 x max(|L|, (k/p)/|ln b|); exact levels outside [-200,200] excluded; unit spellings restricted to D_ok.",
        "§4 C18",
    ),
    "C03": (
        "Hypothesis operator/operand-kind generation (quantity, number, bare unit; int/float/Decimal; compound prefixed units); dimension-vector oracle from the group model; rejection oracle for different dimensions",
        "Exploration: result dimension = product/quotient/power/root of operand dimension vectors, Decimal preserved, + - keep the left unit, and every cross-dimension + - < <= > >= in_unit raises TypeError/ConversionNotFound while == is False.",
        "Zero magnitudes excluded only where the result is undefined; planner AssertionErrors are left to C07.",
        "§4 C03",
    ),
    "C08": (
        "Hypothesis-generated histories (declaration/query interleavings with re-declarations - new ratios, and the same ratio restated in another numeric type, also as an enumerated scenario -, enumerated echo-declaration and late-expansion scenarios, relatives of the final query, ring+spur definition graphs, Quantity and Measurement queries) replayed in two fresh worlds; differential oracle against the declarations-only world + repeat and graph-reachability invariants; a sample of verdicts re-derived in real subprocesses",
        "Exploration over histories: world A runs declarations interleaved with queries, world B (fresh import) the same declarations and only the final query; outcomes must agree; immediate repeats are bit-identical; units linked by the declarations so far never give ConversionNotFound.",
        "A fresh in-process world (measured purged from sys.modules and re-imported) stands for a fresh process.",
        "§4 C08, §2.3",
    ),
    "C12": (
        "Hypothesis lists of same-dimension quantities with equal-by-construction and nudged members (shipped units, temperature scales incl. prefixed, synthetic exactly-consistent worlds), exact SI-value oracle for order/ties/sorting, hash clause on observed equality; mixed Quantity/Level/Measurement/approximately pairs for == symmetry",
        "Exploration: reflexivity, symmetry, trichotomy, <=/>= mirroring, physical order and sorted() against exact rational SI values away from ties; hash equality whenever == is observed; == symmetric across Level/Measurement/approximately operands.",
        "Tie rule per DESIGN 2.9; unit pairs inside D_ok.",
        "§4 C12",
    ),
    "C01": (
        "model-based stateful generation: Hypothesis histories of public operations in a fresh world; registry invariant after every step + free-abelian-group model of every value",
        "Exploration over histories: after every step every newly interned unit (and periodically the whole registry) must have dimension = product of its base-unit factors' recorded dimensions, and every value's dimension must equal the dimension of the history-independent model of the expression that built it.",
        "Base-unit dimensions are recorded at definition time; Unit.__init__ is wrapped from outside only to name the creating function in the bucket.",
        "§4 C01, §2.3, §2.6",
    ),
    "C16": (
        "structural differential (terminals, rules, LALR tables up to state bijection) between a parser freshly built by lark from measured.lark and the shipped _parser.py + Hypothesis grammar-derived sentences and token mutations, parsed by both artefacts under the default load and under propagate_positions=True (node spans compared) + atheris coverage-guided differential fuzzing",
        "Translation-validation style exploration: the table/terminal/rule comparison covers the table-driven part for all token sequences (counted obligations in the evidence); the sampled differential parse (both start symbols, accepted and rejected inputs) covers the runtime driver.",
        "lark 1.3.1 from the wheelhouse regenerates tables isomorphic to the shipped lark-1.1.2 ones; atheris campaigns are only approximately repeatable (failing inputs are re-run in-process and saved).",
        "§4 C16, §6",
    ),
    "C17": (
        "Hypothesis (grammar-derived valid text, token mutations, alphabet strings with length-targeted numerals, arbitrary Unicode) + atheris coverage-guided fuzzing with the semantic oracle inside the target",
        "Exploration: every input must end in a Unit/Quantity, ParseError or KeyError; same outcome on a second call; rejected input leaves name/symbol registries unchanged; accepted magnitudes are int/float as written and never NaN.",
        "Magnitude type is decided by an independent regular expression for SIGNED_INT / SIGNED_FLOAT.",
        "§4 C17",
    ),
    "C20": (
        "harness-owned deterministic line-level thread scheduler (sys.settrace, following calls into library code) driven by Hypothesis-generated schedules + exhaustive enumeration of all interleavings of the two __new__ windows + preemption-bounded enumeration (one, two and one-line-visit preemptions) over constructions by arithmetic, by naming constructors, by nested expressions, by parsing and by threads whose decimal contexts differ",
        "Exploration over schedules: 2-3 threads construct a never-before-constructed dimension/prefix/unit under generated schedules; all threads must get the same object, one registry entry, and later evaluation returns it; the two-thread __new__ window interleavings are enumerated exhaustively.",
        "Line granularity, not bytecode granularity; C-level lru_cache internals are not pre-empted; a lock-based repair would be reported as harness deadlock (exit 2).",
        "§4 C20",
    ),
    "C19": (
        "model-based stateful generation in fresh worlds: Hypothesis histories of anonymous construction, naming, failing definitions (duplicate/malformed arguments in every position, injected exceptions, dimensions decoded from stale documents whose rendering raises) and module imports in generated order; declared-bindings model from intercepted definition calls; registry snapshots around every call",
        "Exploration over histories, fault sequences and import-order configurations: after every step every declared name/symbol resolves to its object and is reported by it, no name/symbol belongs to two objects, a raising call leaves all registries identical, and the final named registries equal those of the default import order.",
        "A call that returns normally and was given a name/symbol for an anonymous (or identically named) object counts as a declaration; intercepted from outside without source hooks.",
        "§4 C19",
    ),
    "C11": (
        "exhaustive enumeration of all prefix pairs and prefix x unit x exponent combinations + Hypothesis compounds/magnitudes + scenarios (registry churn; prefixed dimensionless leftovers against One); exact Fraction prefix values and size oracle",
        "Exploration with two exhaustively enumerated sub-spaces (all ordered pairs of registered prefixes; every registered prefix x 30 units x n in [-4,4]): products/quotients add/subtract exponents and are the interned object, identity prefix neutral, m*(p*u) = (m*value(p))*u, (p*u)**n is p**n*u**n, roots invert powers, division by prefixed units, unprefixed() keeps the value; mixed SI/IEC within 1e-9.",
        "value(p) = Fraction(base)**exponent for the registered prefixes.",
        "§4 C11",
    ),
    "C13": (
        "exhaustive enumeration of (prefix or none) x every registered unit x exponent +-1..3 through str() and both parsers + Hypothesis products and spelling variants + module-subset / incremental-import configurations in fresh worlds; identity / exact-size oracle; documented symbol-resolution model to predict ambiguous spellings",
        "Exploration with an exhaustively enumerated single-term space: str() of every unit and of quantities over it must parse back to the same object (or an equal-size named unit, or, for folded-magnitude renderings, an equal quantity); texts parsing to another physical value are collisions (listed one by one in the known findings); alternative spellings of a term list parse to the identical unit.",
        "Rendering-branch prediction (symbol / pushed prefix / symbol-less prefix / folded magnitude) is computed from the unit's structure and the prefix registry, not from the produced text.",
        "§4 C13",
    ),
    "C15": (
        "exhaustive enumeration of every registered dimension/prefix/named unit and of all prefix triples (a*b)/c + Hypothesis compound units and quantities (int incl. huge, float incl. inf, Decimal incl. 40 digits) through pickle 2-5, copy, deepcopy, JSON encoder/decoder, codecs_installed (string and file API), install()/uninstall(), pydantic, SQL composite + cross-process documents (encode in one world, decode in a fresh one) + round trips around Dimension.define; round-trip oracle with registry snapshots",
        "Exploration with an exhaustively enumerated registry: every interned object must come back as the identical object with unchanged names/symbols from every codec; quantities must come back equal, with the same magnitude type and (pickle/copy) the identical unit object; decoding must not change the name/symbol registries.",
        "pickle protocols 0/1 excluded (Python refuses them for __slots__ classes); pydantic path skips non-finite floats (pydantic writes them as null).",
        "§4 C15",
    ),
}

NOT_YET = {}


def main():
    props = [json.loads(l) for l in open(os.path.join(ROOT, "properties.jsonl"), encoding="utf-8")]
    checks = []
    na = []
    for p in props:
        pid = p["id"]
        if pid in CHECKS:
            tech, text, note, ref = CHECKS[pid]
            checks.append(
                {
                    "property_id": pid,
                    "quick_cmd": f"{PY} {pid} --tier quick",
                    "thorough_cmd": f"{PY} {pid} --tier thorough",
                    "evidence_file": f"/verif/evidence/{pid}.json",
                    "replay_cmd_template": f"{PY} {pid} --replay {{path}}",
                    "engine": "vf",
                    "level_claimed": {"category": "exploration", "text": text, "design_ref": ref},
                    "level_note": note,
                    "technique": tech,
                }
            )
        else:
            na.append({"property_id": pid, "reason": NOT_YET.get(pid, "check not built yet in this round (planned: property-based check per DESIGN.md §4); not claimed until its check is registered and quiet")})
    manifest = {
        "version": 1,
        "setup_cmd": "/venv/bin/pip install -q --no-index --find-links /opt/veriftools/wheels hypothesis lark jsonschema && /venv/bin/pip install -q --no-index --find-links /opt/veriftools/wheels --upgrade --target /verif/.deps atheris",
        "hooks": {
            "guard": "MEASURED_VERIF",
            "enable": "no source hooks are needed: checks import /repo/src (editable install in /venv) directly and intercept conversions.equate/translate by monkey-patching from outside before unit modules are imported; MEASURED_VERIF is reserved and unused",
            "baseline_off_cmd": "cd /repo && /venv/bin/python -m pytest -ra -q -p no:cacheprovider --timeout=900 --continue-on-collection-errors",
            "source_commits": [],
            "add_only": True,
        },
        "engines": [
            {
                "name": "vf",
                "path": "/verif/vf",
                "serves_properties": sorted(CHECKS),
                "kind_free_text": "property-based testing: Hypothesis generators (seeded by VERIF_SEED) + exhaustive enumeration of finite sub-domains + coverage-guided fuzzing (atheris) against explicit independent oracles; collect-then-bucket failure handling; JSON case replay",
            }
        ],
        "checks": checks,
        "not_applicable": na,
        "notes": "Run from /verif. Exit 0 = held (KNOWN-FINDING lines possible, see known_findings.json), 1 = VIOLATION line with replay file, 2 = harness error/inconclusive. Seeds: VERIF_SEED. See DESIGN.md.",
    }
    with open(os.path.join(ROOT, "MANIFEST.json"), "w", encoding="utf-8") as fh:
        json.dump(manifest, fh, indent=1, ensure_ascii=False)
        fh.write("\n")


if __name__ == "__main__":
    main()
