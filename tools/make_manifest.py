"""Regenerates MANIFEST.json from the table below (kept in one place so that the file
is always schema-valid and every property is either claimed or listed not_applicable)."""
import json
import os

ROOT = os.path.dirname(os.path.dirname(os.path.abspath(__file__)))

PY = "PYTHONHASHSEED=0 PYTHONPATH=/verif/.deps /venv/bin/python -m vf"

# id -> (technique, level text, level note, design ref)
CHECKS = {
    "C02": (
        "Hypothesis expression-tree generation with law-rewriting; free-abelian-group normal-form oracle; object identity",
        "Exploration: generated pairs of expression trees (half of them constructed to be equal by group-law rewriting) are evaluated by the library and by an independent normal-form model; identity, factors, prefix and dimension must agree. No absence claim.",
        "Trusts the definitional structure of each named unit as read once at start-up; identity only required within one prefix base (the property's own qualification).",
        "§4 C02, §2.6",
    ),
    "C09": (
        "exhaustive enumeration of all intercepted declarations and named units; exact rational spanning-forest size oracle (cycle residuals); library conversion vs oracle",
        "Exploration with an exhaustively enumerated finite space: every shipped equals() declaration is either a tree edge or closes a fundamental cycle whose exact residual is checked (all cycles are sums of these), every named unit is converted to and from its coherent SI unit and compared with the exact size ratio, and the declared set is re-derived under different first-imported modules.",
        "A unit with a single declaration and a wrong constant is undetectable by mutual consistency. Exact arithmetic: float literals are taken as the exact binary values written.",
        "§4 C09, §2.5",
    ),
}

NOT_YET = {}


def main():
    props = [json.loads(l) for l in open(os.path.join(ROOT, "properties.jsonl"), encoding="utf-8")]
    checks = []
    na = []
    for p in props:
        pid = p["id"]
        if pid in CHECKS:
            tech, text, note, ref = CHECKS[pid]
            checks.append(
                {
                    "property_id": pid,
                    "quick_cmd": f"{PY} {pid} --tier quick",
                    "thorough_cmd": f"{PY} {pid} --tier thorough",
                    "evidence_file": f"/verif/evidence/{pid}.json",
                    "replay_cmd_template": f"{PY} {pid} --replay {{path}}",
                    "engine": "vf",
                    "level_claimed": {"category": "exploration", "text": text, "design_ref": ref},
                    "level_note": note,
                    "technique": tech,
                }
            )
        else:
            na.append({"property_id": pid, "reason": NOT_YET.get(pid, "check not built yet in this round (planned: property-based check per DESIGN.md §4); not claimed until its check is registered and quiet")})
    manifest = {
        "version": 1,
        "setup_cmd": "/venv/bin/pip install -q --no-index --find-links /opt/veriftools/wheels hypothesis lark jsonschema && /venv/bin/pip install -q --no-index --find-links /opt/veriftools/wheels --upgrade --target /verif/.deps atheris",
        "hooks": {
            "guard": "MEASURED_VERIF",
            "enable": "no source hooks are needed: checks import /repo/src (editable install in /venv) directly and intercept conversions.equate/translate by monkey-patching from outside before unit modules are imported; MEASURED_VERIF is reserved and unused",
            "baseline_off_cmd": "cd /repo && /venv/bin/python -m pytest -ra -q -p no:cacheprovider --timeout=900 --continue-on-collection-errors",
            "source_commits": [],
            "add_only": True,
        },
        "engines": [
            {
                "name": "vf",
                "path": "/verif/vf",
                "serves_properties": sorted(CHECKS),
                "kind_free_text": "property-based testing: Hypothesis generators (seeded by VERIF_SEED) + exhaustive enumeration of finite sub-domains + coverage-guided fuzzing (atheris) against explicit independent oracles; collect-then-bucket failure handling; JSON case replay",
            }
        ],
        "checks": checks,
        "not_applicable": na,
        "notes": "Run from /verif. Exit 0 = held (KNOWN-FINDING lines possible, see known_findings.json), 1 = VIOLATION line with replay file, 2 = harness error/inconclusive. Seeds: VERIF_SEED. See DESIGN.md.",
    }
    with open(os.path.join(ROOT, "MANIFEST.json"), "w", encoding="utf-8") as fh:
        json.dump(manifest, fh, indent=1, ensure_ascii=False)
        fh.write("\n")


if __name__ == "__main__":
    main()
