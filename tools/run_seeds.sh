#!/bin/bash
# Re-runs every kept seeded defect (seeded/<id>/patch.diff) against the current /repo HEAD with the
# checks recorded for it in seeded/<id>/checks.txt (one property id per line) and prints a table.
cd /verif
for d in seeded/*/; do
  id=$(basename $d)
  props=$(cat $d/checks.txt 2>/dev/null | tr '\n' ' ')
  [ -z "$props" ] && props=$(echo $id | sed 's/-.*//' | tr a-z A-Z)
  mkdir -p /tmp/seedsrc_$id && cp $d/patch.diff $d/demo.py /tmp/seedsrc_$id/ && [ -f $d/NOTES.md ] && cp $d/NOTES.md /tmp/seedsrc_$id/
  echo "== $id ($props)"
  base=""; [ -f $d/base.txt ] && base=$(cat $d/base.txt)   # seeds that only apply/manifest on an older commit of /repo
  BASE=$base tools/try_seed.sh /tmp/seedsrc_$id $id $props 2>&1 | grep -E "^check|^demo|PATCH"
  rm -rf /tmp/seedsrc_$id
done
