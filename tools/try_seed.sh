#!/bin/bash
# usage: tools/try_seed.sh <seed dir with patch.diff demo.py NOTES.md> <seed id> <PROP> [more props...]
# Confirms a seeded defect in a scratch worktree of /repo's HEAD (never in /repo itself):
#   demo fails with the patch / passes without, the repository's suite is unchanged with it,
#   and runs the quick check(s) of the given properties against the patched copy.
# Writes /verif/seeded/<seed id>/{patch.diff,demo.py,NOTES.md,meta.json,check_<PROP>.log}
set -u
SRC=$1; ID=$2; shift 2
PROPS="$@"
OUT=/verif/seeded/$ID
WT=/tmp/sr_$ID
mkdir -p $OUT
cp $SRC/patch.diff $SRC/demo.py $OUT/ 2>/dev/null
[ -f $SRC/NOTES.md ] && cp $SRC/NOTES.md $OUT/NOTES.md
git -C /repo worktree remove --force $WT 2>/dev/null
[ -z "${BASE:-}" ] && BASE=HEAD; git -C /repo worktree add -q --detach $WT $BASE || exit 2
HEAD=$(git -C /repo rev-parse --short ${BASE:-HEAD})
# --3way first: it merges against the blob the patch was made from, so a hunk cannot land
# on a look-alike context elsewhere in a file that has changed since
if ! git -C $WT apply --3way $OUT/patch.diff 2>$OUT/apply.log; then
  git -C $WT checkout -q -- .
  if ! git -C $WT apply $OUT/patch.diff 2>>$OUT/apply.log; then
    echo "PATCH DOES NOT APPLY on $HEAD"; git -C /repo worktree remove --force $WT; exit 3
  fi
fi
git -C $WT reset -q
export PYTHONHASHSEED=0
demo_with=$(cd $WT && PYTHONPATH=$WT/src /venv/bin/python $OUT/demo.py >/dev/null 2>&1; echo $?)
demo_without=$(cd /tmp && /venv/bin/python $OUT/demo.py >/dev/null 2>&1; echo $?)
# tests/test_parsing.py::test_each_unit_roundtrips is randomised and fails about one run in three on
# the clean tree as well (DESIGN 9.2): a run whose only extra failure is that test is repeated
for attempt in 1 2 3 4; do
  suite_out=$(cd $WT && rm -rf .hypothesis && PYTHONPATH=$WT/src /venv/bin/python -m pytest -q -p no:cacheprovider -n 8 2>&1 | grep -E "^FAILED|passed|failed")
  suite=$(echo "$suite_out" | tail -1)
  extra=$(echo "$suite_out" | grep "^FAILED" | grep -v "tests/test_cli.py\|api_roundtrip" | sed 's/ - .*//' | tr '\n' ' ')
  [ -z "$extra" ] && break
  [ "$extra" != "FAILED tests/test_parsing.py::test_each_unit_roundtrips " ] && break
done
[ -n "$extra" ] && suite="$suite; beyond the 9 baseline failures: $extra"
results=""
for P in $PROPS; do
  (cd /verif && VF_EVIDENCE_DIR=$OUT/evidence VF_REPLAY_DIR=$OUT/replays PYTHONPATH=$WT/src:/verif/.deps timeout 900 /venv/bin/python -m vf $P --tier quick > $OUT/check_$P.log 2>&1; echo $? > $OUT/.rc_$P)
  rc=$(cat $OUT/.rc_$P); rm -f $OUT/.rc_$P
  results="$results\"$P\": $rc, "
  echo "check $P exit=$rc: $(grep -m2 -E 'VIOLATION|bucket=' $OUT/check_$P.log | cut -c1-220 | tr '\n' ' ')"
done
echo "demo with patch exit=$demo_with, without=$demo_without; suite: $suite"
cat > $OUT/meta.json <<EOF
{
 "seed": "$ID",
 "repo_head": "$HEAD",
 "demo_exit_with_patch": $demo_with,
 "demo_exit_without_patch": $demo_without,
 "suite_with_patch": "$suite",
 "quick_check_exit_codes": { ${results%, } },
 "how_run": "scratch worktree of /repo HEAD + patch.diff; checks run from /verif with PYTHONPATH=<worktree>/src shadowing the editable install (tools/try_seed.sh)"
}
EOF
git -C /repo worktree remove --force $WT
rm -rf $OUT/evidence
