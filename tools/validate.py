"""Validate MANIFEST.json and every evidence file against the harness schemas."""
import json, sys, os, glob
import jsonschema
root = os.path.dirname(os.path.dirname(os.path.abspath(__file__)))
ok = True
man = json.load(open(os.path.join(root, "MANIFEST.json")))
jsonschema.validate(man, json.load(open("/root/.vp/MANIFEST.schema.json")))
props = [json.loads(l)["id"] for l in open(os.path.join(root, "properties.jsonl"))]
claimed = [c["property_id"] for c in man["checks"]]
na = [n["property_id"] for n in man.get("not_applicable", [])]
missing = [p for p in props if p not in claimed and p not in na]
print("manifest ok; claimed", len(claimed), "not_applicable", len(na), "unaccounted", missing)
es = json.load(open("/root/.vp/EVIDENCE.schema.json"))
for f in sorted(glob.glob(os.path.join(root, "evidence", "*.json"))):
    try:
        jsonschema.validate(json.load(open(f)), es)
        print("evidence ok", os.path.basename(f))
    except Exception as e:
        ok = False
        print("evidence INVALID", f, str(e)[:300])
sys.exit(0 if ok and not missing else 1)
