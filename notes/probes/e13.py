import collections, itertools, random, sys
from measured import *
from measured import systems
from measured.parsing import ParseError
named = sorted({u for u in Unit._by_name.values()}, key=lambda u: u.name)
prefixes = [IdentityPrefix]+sorted(set(Prefix._by_name.values()), key=lambda p:(p.base,p.exponent))
stats = collections.Counter(); ex = collections.defaultdict(list)
def check(u, tag):
    try:
        s = str(u)
    except Exception as e:
        stats['str-exc:'+type(e).__name__]+=1; ex['str-exc:'+type(e).__name__].append((repr(u)[:100],)); return
    try:
        v = Unit.parse(s)
    except (ParseError, KeyError) as e:
        stats['reject:'+type(e).__name__]+=1; ex['reject:'+type(e).__name__].append((s,)); return
    except Exception as e:
        stats['exc:'+type(e).__name__]+=1; ex['exc:'+type(e).__name__].append((s,repr(e)[:60])); return
    if v is u: stats['same']+=1; return
    # compare scale & dimension
    if v.dimension is not u.dimension:
        stats['DIM']+=1; ex['DIM'].append((s, str(v), str(u.dimension), str(v.dimension))); return
    try:
        eq = (1*u == 1*v)
    except Exception as e:
        eq = 'exc '+type(e).__name__
    if eq is True: stats['equal-not-same']+=1; ex['equal-not-same'].append((s, repr(u)[:80], repr(v)[:80]))
    else: stats['DIFF:'+str(eq)]+=1; ex['DIFF:'+str(eq)].append((s, u.prefix, v.prefix, [ (str(a),b) for a,b in u.factors.items()], [(str(a),b) for a,b in v.factors.items()]))
for p in prefixes:
    for u in named:
        for e in (1,2,3,-1,-2,-3):
            check((p*u)**e, "pue")
print(stats)
for k,v in ex.items():
    print('==',k, len(v))
    for e in v[:12]: print('   ',e)
print("---- products")
stats.clear(); ex.clear()
rnd = random.Random(5)
for i in range(20000):
    a = (rnd.choice(prefixes)*rnd.choice(named))**rnd.choice([1,2,3,-1,-2,-3])
    b = (rnd.choice(prefixes)*rnd.choice(named))**rnd.choice([1,2,3,-1,-2,-3])
    check(a*b, 'prod')
print(stats)
for k,v in ex.items():
    print('==',k, len(v))
    for e in v[:12]: print('   ',e)
