import random, sys, itertools, collections, traceback
from fractions import Fraction
import oracle
from oracle import SIZE, unit_size, pfx
from measured import *
from measured import conversions
from measured.conversions import ConversionNotFound
SCALE_UNITS = {s for s,_ in oracle.SCALES}
named = sorted({u for u in Unit._by_name.values() if u not in SCALE_UNITS and u is not One}, key=lambda u: u.name)
bydim = collections.defaultdict(list)
for u in named: bydim[u.dimension].append(u)
def degree(u): return sum(abs(e) for e in u.factors.values())
def classify(src,dst):
    if not oracle.determined(src,dst): return 'undetermined', None
    exp = unit_size(src)/unit_size(dst)
    import math
    if not (Fraction(1,10**200) < exp < Fraction(10**200)): return 'extreme', None
    try:
        got = (1.0*src).in_unit(dst)
    except ConversionNotFound as ex:
        return 'notfound', None
    except Exception as ex:
        tb = traceback.extract_tb(ex.__traceback__)
        fn = [f.name for f in tb if 'conversions' in f.filename]
        return 'exc:'+type(ex).__name__+':'+(fn[-2] if len(fn)>1 else '')+'>'+(fn[-1] if fn else ''), None
    if got.unit is not dst: return 'wrongunit', None
    import math
    if not math.isfinite(got.magnitude) or got.magnitude==0: return 'overflow', None
    rel = float(abs(Fraction(got.magnitude)/exp-1))
    tol = 1e-5*max(1,degree(src)+degree(dst))
    if not (rel<=tol): return 'WRONG', (got.magnitude, float(exp))
    return 'ok', None
if __name__=='__main__':
    stats=collections.Counter(); ex=collections.defaultdict(list)
    for d,us in bydim.items():
        for a,b in itertools.permutations(us,2):
            for e in (1,2,3,-1,-2,-3):
                k,info=classify(a**e,b**e)
                stats[(e,k)]+=1
                if k!='ok' and len(ex[(e,k)])<6: ex[(e,k)].append((str(a**e),str(b**e),info))
    for k in sorted(stats, key=str): print(k, stats[k])
    for k,v in sorted(ex.items(), key=str):
        print("==",k)
        for e in v: print("    ",e)
