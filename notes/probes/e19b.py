import sys, importlib, random, collections
mods=['acoustics','apocrypha','astronomical','avoirdupois','computing','electronics','energy','eu','fff','iec','iso','metric','music','natural','si','troy','us']
def fresh(order):
    for k in [k for k in sys.modules if k=='measured' or k.startswith('measured.')]: del sys.modules[k]
    m=importlib.import_module('measured')
    for x in order: importlib.import_module('measured.'+x)
    return m
def desc(m):
    def ud(u): return (repr(u.prefix), tuple(sorted((f.name or '?', e) for f,e in u.factors.items())), u.dimension.exponents, u.names, u.symbols)
    return ({n:ud(u) for n,u in m.Unit._by_name.items()}, {s:ud(u) for s,u in m.Unit._by_symbol.items()}, {n:(p.base,p.exponent,p.name,p.symbol) for n,p in m.Prefix._by_name.items()}, {s:(p.base,p.exponent,p.name,p.symbol) for s,p in m.Prefix._by_symbol.items()}, {n:(d.exponents,d.name,d.symbol) for n,d in m.Dimension._by_name.items()})
rnd=random.Random(1)
ref=desc(fresh(mods))
diffs=0
for i in range(40):
    o=list(mods); rnd.shuffle(o)
    d=desc(fresh(o))
    if d!=ref:
        diffs+=1
        for a,b,nm in zip(ref,d,['uname','usym','pname','psym','dname']):
            if a!=b:
                ks=[k for k in set(a)|set(b) if a.get(k)!=b.get(k)]
                print(o[:3], nm, ks[:5])
print("diffs",diffs)
