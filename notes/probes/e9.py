import collections
from fractions import Fraction
import oracle
from oracle import unit_size
from e4b import classify, named
from measured import *
from measured.si import *
from measured.iec import Bit
SI = {Length:Meter, Time:Second, Mass:Kilogram, Charge:Coulomb, Temperature:Kelvin, AmountOfSubstance:Mole, LuminousIntensity:Candela, Information:Bit}
fund = Dimension.fundamental()
def coherent(dim):
    u = One
    for f,e in zip(fund, dim.exponents):
        if e and f is not Number: u = u * SI[f]**e
    return u
st=collections.Counter()
for u in named:
    if u.dimension is Number: st['number-dim']+=1; continue
    c = coherent(u.dimension)
    a,_ = classify(u,c); b,_=classify(c,u)
    st[(a,b)]+=1
    if (a,b)!=('ok','ok'): print(u.name, '|', c, '|', a, b)
print(st)
