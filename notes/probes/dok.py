from measured import Dimension, One, Number
def dimkind(d):
    ex=[e for e in d.exponents if e]
    if not ex: return 'num'
    pos=[e for e in ex if e>0]; neg=[e for e in ex if e<0]
    if pos and neg: return 'mixed'
    if neg: return 'neg'
    if len(ex)==1 and ex[0]==1: return 'simple'
    if len(ex)==1: return 'power'
    return 'multi'
def side_ok(u):
    signs={}
    for f,e in u.factors.items():
        if f is One: continue
        k=dimkind(f.dimension)
        if k in('mixed','neg'): return False
        if k=='num':
            if e<0: return False
            continue
        if k in('power','multi') and e<0: return False
        for i,x in enumerate(f.dimension.exponents):
            if x:
                s = 1 if x*e>0 else -1
                if signs.setdefault(i,s)!=s: return False
    return True
def in_dok(src,dst): return side_ok(src) and side_ok(dst)
