# -O differential on D_ok + some outside
import sys, random, json
from e4b import named, bydim
from dok import in_dok
from measured import *
from measured.conversions import ConversionNotFound
prefixes = sorted(set(Prefix._by_name.values()), key=lambda p:(p.base,p.exponent))
rnd=random.Random(99)
def build(terms):
    r=One
    for p,u,e in terms: r=r*(p*u)**e
    return r
out=[]
for i in range(4000):
    n=rnd.choice([1,2,3])
    terms=[(rnd.choice(prefixes) if rnd.random()<0.3 else IdentityPrefix, rnd.choice(named), rnd.choice([1,1,2,3,-1,-2])) for _ in range(n)]
    tt=[(rnd.choice(prefixes) if rnd.random()<0.3 else IdentityPrefix, rnd.choice(bydim[u.dimension]), e) for p,u,e in terms]; rnd.shuffle(tt)
    src,dst=build(terms),build(tt)
    try: r=repr((1.5*src).in_unit(dst).magnitude)
    except ConversionNotFound: r='CNF'
    except Exception as e: r='EXC '+type(e).__name__
    out.append((in_dok(src,dst), r))
print(json.dumps(out))
