import sys, importlib, random, collections, io, contextlib, pickle, json
def fresh():
    for k in [k for k in sys.modules if k=='measured' or k.startswith('measured.')]: del sys.modules[k]
    m=importlib.import_module('measured')
    for x in ('si','us','energy','astronomical','metric','iec'): importlib.import_module('measured.'+x)
    return m
rnd=random.Random(int(sys.argv[1])); N=int(sys.argv[2])
st=collections.Counter()
from IPython.lib.pretty import pretty
for case in range(N):
    m=fresh()
    from measured.conversions import ConversionNotFound
    from measured.json import MeasuredJSONEncoder, MeasuredJSONDecoder
    from measured import cli
    Number=m.Number
    basedim={u:u.dimension for u in m.Unit._base}
    def check(tag):
        for u in list(m.Unit._known.values()):
            if not getattr(u,'_initialized',False): continue
            if len(u.factors)==1 and next(iter(u.factors)) is u:
                if u in basedim and basedim[u] is not u.dimension: return ('base changed',u)
                continue
            d=Number
            for f,e in u.factors.items(): d=d*basedim.get(f,f.dimension)**e
            if d is not u.dimension: return (tag, str(u), str(u.dimension), str(d))
        return None
    named=sorted(set(m.Unit._by_name.values()), key=lambda u:u.name)
    prefixes=[m.IdentityPrefix]+sorted(set(m.Prefix._by_name.values()), key=lambda p:(p.base,p.exponent))
    pool=[rnd.choice(prefixes)*rnd.choice(named) if rnd.random()<0.3 else rnd.choice(named) for _ in range(6)]
    ops=[]
    for step in range(25):
        a=rnd.choice(pool); b=rnd.choice(pool); k=rnd.random()
        try:
            if k<0.15: r=a*b; ops.append('mul')
            elif k<0.30: r=a/b; ops.append('div')
            elif k<0.40: r=a**rnd.choice([-3,-2,-1,2,3]); ops.append('pow')
            elif k<0.50:
                ops.append('root')
                try: r=a.root(rnd.choice([2,3,-2]))
                except ValueError: r=a
            elif k<0.58: ops.append('ratio'); n,d=a.as_ratio(); r=rnd.choice([n,d])
            elif k<0.64: ops.append('fmt/'); format(a,'/'); r=a
            elif k<0.68: ops.append('pretty'); pretty(a); pretty(2*a); r=a
            elif k<0.72: ops.append('html'); a._repr_html_(); (2*a)._repr_html_(); r=a
            elif k<0.76: ops.append('str'); str(a); repr(a); r=a
            elif k<0.82:
                ops.append('conv')
                try: (2*a).in_unit(b)
                except (ConversionNotFound, AssertionError, RecursionError): pass
                r=a
            elif k<0.86:
                ops.append('cmp')
                try: (2*a)==(3*b); (2*a)<(3*b)
                except (TypeError, AssertionError): pass
                r=a
            elif k<0.90:
                ops.append('parse')
                try: r=m.Unit.parse(str(a))
                except Exception: r=a
            elif k<0.94:
                ops.append('ser'); r=pickle.loads(pickle.dumps(a)); json.loads(json.dumps(a,cls=MeasuredJSONEncoder),cls=MeasuredJSONDecoder)
            else:
                ops.append('cli')
                buf=io.StringIO()
                with contextlib.redirect_stdout(buf):
                    try: cli.print_quantity('3 '+str(a))
                    except SystemExit: pass
                r=a
        except Exception as e:
            st['opexc '+ops[-1]+' '+type(e).__name__]+=1; r=a
        pool[rnd.randrange(len(pool))]=r
        bad=check(ops[-1])
        if bad:
            st['VIOL '+bad[0]]+=1
            if st['VIOL '+bad[0]]<4: print(bad, ops[-6:])
            break
    else: st['clean']+=1
print(st)
