import random, sys, collections, itertools
from fractions import Fraction as F
from measured import *
from measured.si import Kilo, Milli, Mega, Micro
from measured.conversions import ConversionNotFound
from dok import in_dok
rnd=random.Random(int(sys.argv[1])); NS=int(sys.argv[2])
st=collections.Counter()
uid=0
def fresh(dim,tag):
    global uid; uid+=1
    return dim.unit(f"syn{tag}{uid}", f"syn{tag}{uid}")
def rat(): return F(rnd.choice([1,2,3,4,5,6,8,10,12,16,25,100,1000]), rnd.choice([1,1,1,2,3,4,5,8,10]))
PFX=[IdentityPrefix,IdentityPrefix,Kilo,Milli,Mega,Micro]
for sysno in range(NS):
    size={}
    fam={}
    decls=0
    for dim,tag in ((Length,'L'),(Time,'T'),(Mass,'M')):
        n=rnd.randint(2,5); us=[fresh(dim,tag) for _ in range(n)]
        fam[dim]=us
        for u in us: size[u]=rat()*rnd.choice([1,1,F(1,1000),1000])
        # spanning tree + redundancy
        order=list(us); rnd.shuffle(order)
        edges=[(order[i], rnd.choice(order[:i])) for i in range(1,n)]
        for _ in range(rnd.randint(0,3)):
            a,b=rnd.sample(us,2); edges.append((a,b))
        for a,b in edges:
            p=rnd.choice(PFX); pv=F(p.base)**p.exponent if p.base else F(1)
            r=size[a]/size[b]/pv
            mag = r.numerator if r.denominator==1 else float(r)
            a.equals(mag*(p*b)); decls+=1
    # area/volume units
    ext=[]
    for _ in range(rnd.randint(0,3)):
        k=rnd.choice([2,3]); dim=Length**k; u=fresh(dim,'P'); b=rnd.choice(fam[Length]); r=rat()
        size[u]=r*size[b]**k; mag=r.numerator if r.denominator==1 else float(r)
        u.equals(mag*b**k); ext.append(u)
        if rnd.random()<0.5:
            c=rnd.choice(fam[Length]); r2=size[u]/size[c]**k; u.equals((r2.numerator if r2.denominator==1 else float(r2))*c**k)
    allu=[u for us in fam.values() for u in us]+ext
    bydim=collections.defaultdict(list)
    for u in allu: bydim[u.dimension].append(u)
    def usize(x):
        s=F(x.prefix.base)**x.prefix.exponent if x.prefix.base else F(1)
        for f,e in x.factors.items():
            if f is not One: s*=size[f]**e
        return s
    for q in range(40):
        n=rnd.choice([1,2,3])
        terms=[(rnd.choice(PFX), rnd.choice(allu), rnd.choice([1,1,2,3,-1,-2])) for _ in range(n)]
        tt=[(rnd.choice(PFX), rnd.choice(bydim[u.dimension]), e) for p,u,e in terms]; rnd.shuffle(tt)
        def build(ts):
            r=One
            for p,u,e in ts: r=r*(p*u)**e
            return r
        src,dst=build(terms),build(tt)
        # also power<->simple regroup: area unit -> len^2
        if not in_dok(src,dst): st['skip']+=1; continue
        exp=usize(src)/usize(dst)
        m=rnd.choice([1,3,2.5,-7])
        try: got=(m*src).in_unit(dst)
        except ConversionNotFound: st['notfound']+=1; continue
        except Exception as e: st['EXC '+type(e).__name__]+=1; print("EXC",src,dst,repr(e)[:80]); continue
        rel=abs(F(got.magnitude)/(F(m)*exp)-1)
        if rel>F(1,10**12): st['WRONG']+=1; print("WRONG",src,'->',dst,got.magnitude,float(F(m)*exp), float(rel))
        else: st['ok']+=1
print(st)
