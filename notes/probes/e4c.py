import random, sys, itertools, collections
from fractions import Fraction
import oracle
from e4b import classify, named, bydim, degree
from measured import *
fund = Dimension.fundamental()
def dimkind(d):
    ex=[e for e in d.exponents if e]
    if not ex: return 'num'
    pos=[e for e in ex if e>0]; neg=[e for e in ex if e<0]
    if pos and neg: return 'mixed'
    if neg: return 'neg'
    if len(ex)==1 and ex[0]==1: return 'simple'
    if len(ex)==1: return 'power'
    return 'multi'
def feats(u):
    fs=set()
    for f,e in u.factors.items():
        if f is One: continue
        k=dimkind(f.dimension)
        fs.add(k+('+' if e>0 else '-'))
    return fs
prefixes = sorted(set(Prefix._by_name.values()), key=lambda p:(p.base,p.exponent))
rnd=random.Random(int(sys.argv[1]))
N=int(sys.argv[2])
table=collections.defaultdict(collections.Counter); ex=collections.defaultdict(list)
def build(terms):
    r=One
    for p,u,e in terms: r=r*(p*u)**e
    return r
for i in range(N):
    n=rnd.choice([1,2,2,3])
    terms=[(rnd.choice(prefixes) if rnd.random()<0.25 else IdentityPrefix, rnd.choice(named), rnd.choice([1,1,2,3,-1,-1,-2])) for _ in range(n)]
    src=build(terms)
    tt=[(rnd.choice(prefixes) if rnd.random()<0.25 else IdentityPrefix, rnd.choice(bydim[u.dimension]), e) for p,u,e in terms]
    rnd.shuffle(tt)
    dst=build(tt)
    if src.dimension is not dst.dimension: table['DIMBUG']['x']+=1; continue
    F=frozenset(feats(src)|feats(dst))
    k,info=classify(src,dst)
    k=k.split(':')[0]+(':'+k.split(':')[1] if k.startswith('exc') else '')
    table[F][k]+=1
    if k not in('ok','notfound') and len(ex[F])<40: ex[F].append((str(src),str(dst),k,info))
for F,c in sorted(table.items(), key=lambda kv:-sum(kv[1].values())):
    bad=sum(v for k,v in c.items() if k not in('ok','notfound'))
    print(f"{sum(c.values()):6d} bad={bad:5d}  {sorted(F)}  {dict(c)}")
    if bad and F in (frozenset(['power-']), frozenset(['power+','simple-']), frozenset(['num+','simple+','simple-'])):
        for e in ex[F]: print("          ",e)
