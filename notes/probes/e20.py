import sys, threading, itertools, random
import measured
from measured import *
from measured.si import *
TARGET = measured.__file__
class Sched:
    def __init__(self, thunks, choices):
        self.thunks=thunks; self.choices=list(choices); self.n=len(thunks)
        self.go=[threading.Semaphore(0) for _ in thunks]
        self.back=threading.Semaphore(0)
        self.done=[False]*self.n; self.results=[None]*self.n; self.steps=0; self.trace=[]
    def _tracer(self, i):
        def local(frame, event, arg):
            if event=='line':
                self.trace.append((i, frame.f_code.co_name, frame.f_lineno))
                self.back.release(); self.go[i].acquire()
            return local
        def glob(frame, event, arg):
            if frame.f_code.co_filename==TARGET:
                return local
            return None
        return glob
    def _run(self,i):
        self.go[i].acquire()
        sys.settrace(self._tracer(i))
        try:
            self.results[i]=self.thunks[i]()
        except BaseException as e:
            self.results[i]=e
        finally:
            sys.settrace(None)
            self.done[i]=True
            self.back.release()
    def run(self):
        ts=[threading.Thread(target=self._run,args=(i,)) for i in range(self.n)]
        for t in ts: t.start()
        k=0
        while not all(self.done):
            alive=[i for i in range(self.n) if not self.done[i]]
            c=self.choices[k] if k<len(self.choices) else 0; k+=1
            i=alive[c%len(alive)]
            self.go[i].release(); self.back.acquire(); self.steps+=1
        for t in ts: t.join()
        return self.results
rnd=random.Random(1)
viol=0; N=300
for trial in range(N):
    e=100+trial
    thunks=[lambda e=e: Meter**e, lambda e=e: Meter**e]
    choices=[rnd.randint(0,1) for _ in range(200)]
    s=Sched(thunks,choices); r=s.run()
    later=Meter**e
    if not (r[0] is r[1] is later): viol+=1; 
    if trial==0: print("steps",s.steps, s.trace[:12])
print("violations",viol,"of",N)
