import random, sys, collections, operator
from decimal import Decimal
from measured import *
from measured import systems
from measured.conversions import ConversionNotFound
rnd=random.Random(int(sys.argv[1])); N=int(sys.argv[2])
named=sorted(set(Unit._by_name.values()), key=lambda u:u.name)
prefixes=[IdentityPrefix]+sorted(set(Prefix._by_name.values()), key=lambda p:(p.base,p.exponent))
def runit():
    r=One
    for _ in range(rnd.choice([1,1,2,3])):
        r=r*(rnd.choice(prefixes if rnd.random()<0.3 else [IdentityPrefix])*rnd.choice(named))**rnd.choice([1,1,2,-1,-2])
    return r
def rmag(nz=True,pos=False):
    k=rnd.random()
    v = rnd.randint(1,20) if k<0.34 else (round(rnd.uniform(0.1,50),3) if k<0.67 else Decimal(str(round(rnd.uniform(0.1,50),3))))
    if not pos and rnd.random()<0.4: v=-v
    return v
def dvec(d): return d.exponents
st=collections.Counter()
for i in range(N):
    a=Quantity(rmag(),runit()); 
    kind=rnd.choice(['q','q','num','unit'])
    b=Quantity(rmag(),runit()) if kind=='q' else (rmag() if kind=='num' else runit())
    op=rnd.choice(['mul','rmul','div','rdiv','pow','root','neg','abs','pos'])
    bd = b.unit.dimension.exponents if kind=='q' else (b.dimension.exponents if kind=='unit' else tuple([0]*10))
    ad = a.unit.dimension.exponents
    anydec = isinstance(a.magnitude,Decimal) or (kind=='q' and isinstance(b.magnitude,Decimal)) or (kind=='num' and isinstance(b,Decimal))
    try:
        if op=='mul': r=a*b; exp=tuple(x+y for x,y in zip(ad,bd))
        elif op=='rmul': r=b*a; exp=tuple(x+y for x,y in zip(ad,bd))
        elif op=='div': r=a/b; exp=tuple(x-y for x,y in zip(ad,bd))
        elif op=='rdiv':
            r=b/a; exp=tuple(y-x for x,y in zip(ad,bd))
        elif op=='pow': n=rnd.choice([-3,-2,-1,0,1,2,3]); r=a**n; exp=tuple(x*n for x in ad); anydec=isinstance(a.magnitude,Decimal)
        elif op=='root':
            n=rnd.choice([1,2,3,-2]); aa=Quantity(abs(a.magnitude), a.unit**abs(n)); r=aa.root(n); exp=tuple(x*abs(n)//n for x in ad); anydec=isinstance(a.magnitude,Decimal)
        elif op=='neg': r=-a; exp=ad; anydec=isinstance(a.magnitude,Decimal)
        elif op=='abs': r=abs(a); exp=ad; anydec=isinstance(a.magnitude,Decimal)
        elif op=='pos': r=+a; exp=ad; anydec=isinstance(a.magnitude,Decimal)
    except TypeError as e:
        st[f'TypeError {op} {kind}']+=1; continue
    except Exception as e:
        st[f'EXC {op} {kind} {type(e).__name__}']+=1; continue
    if not isinstance(r,Quantity): st[f'NOTQ {op} {kind}']+=1; continue
    bad=[]
    if r.unit.dimension.exponents!=exp: bad.append('DIM')
    if anydec != isinstance(r.magnitude,Decimal): bad.append('DEC')
    if bad: st[f'BAD {op} {kind} {bad}']+=1
    else: st['ok']+=1
for k,v in sorted(st.items()): print(v,k)
