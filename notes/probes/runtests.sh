#!/bin/bash
# run the repo test-suite against scratch src
cd /tmp/x && rm -rf rt && mkdir rt && cp -r /repo/tests /repo/setup.cfg /repo/pyproject.toml /repo/README.md rt/ && cp -r /tmp/x/src rt/src
cd rt && PYTHONPATH=/tmp/x/rt/src /venv/bin/python -m pytest -q -p no:cacheprovider --no-cov -n 12 2>&1 | tail -15
