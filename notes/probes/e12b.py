import random, sys, collections
from fractions import Fraction as F
from decimal import Decimal
import oracle
from oracle import unit_size, determined
from e4b import named, bydim
from dok import in_dok, side_ok
from measured import *
from measured.conversions import ConversionNotFound
prefixes = sorted(set(Prefix._by_name.values()), key=lambda p:(p.base,p.exponent))
rnd=random.Random(int(sys.argv[1])); N=int(sys.argv[2])
ok=[u for u in named if side_ok(u) and u.dimension is not Number]
st=collections.Counter()
def build(terms):
    r=One
    for p,u,e in terms: r=r*(p*u)**e
    return r
def mag():
    k=rnd.random()
    if k<0.3: return rnd.randint(-50,50)
    if k<0.8: return rnd.choice([-1,1])*10**rnd.uniform(-3,3)
    return Decimal(str(round(rnd.uniform(-100,100),3)))
def si(q): return F(q.magnitude)*unit_size(q.unit)
while st['n']<N:
    n=rnd.choice([1,1,2])
    terms=[(rnd.choice(prefixes) if rnd.random()<0.3 else IdentityPrefix, rnd.choice(ok), rnd.choice([1,1,2,-1])) for _ in range(n)]
    ua=build(terms)
    tt=[(rnd.choice(prefixes) if rnd.random()<0.3 else IdentityPrefix, rnd.choice(bydim[u.dimension]), e) for p,u,e in terms]
    ub=build(tt)
    if not in_dok(ua,ub) or not determined(ua,ub): continue
    ratio=unit_size(ua)/unit_size(ub)
    if not (F(1,10**60)<ratio<F(10**60)): continue
    a=Quantity(mag(),ua)
    # b: either independent, or equal-by-oracle re-expression
    if rnd.random()<0.4:
        bm=float(F(a.magnitude)*ratio); b=Quantity(bm,ub)
    else: b=Quantity(mag(),ub)
    try:
        lt,eq,gt=a<b,a==b,a>b; le,ge=a<=b,a>=b; rlt,req,rgt=b<a,b==a,b>a; rle,rge=b<=a,b>=a
    except ConversionNotFound: st['cnf']+=1; continue
    except TypeError: st['typeerr']+=1; continue
    st['n']+=1
    sa,sb=si(a),si(b)
    scale=max(abs(sa),abs(sb))
    tie = scale==0 or abs(sa-sb) <= F(1,10**9)*scale
    if tie:
        st['tie']+=1
        if eq and hash(a)!=hash(b): st['HASH(tie-eq)']+=1
        continue
    exp_lt = sa<sb
    bad=[]
    if (lt,eq,gt)!=(exp_lt,False,not exp_lt): bad.append('trichotomy/order')
    if (rlt,req,rgt)!=(not exp_lt,False,exp_lt): bad.append('reverse')
    if le!=exp_lt or ge!=(not exp_lt) or rle!=(not exp_lt) or rge!=exp_lt: bad.append('le/ge')
    # add/sub SI
    try:
        s=a+b; d=a-b
        for r,e in ((s,sa+sb),(d,sa-sb)):
            if r.unit is not a.unit: bad.append('unit')
            err=abs(si(r)-e)
            if err>F(1,10**9)*scale: bad.append('sum')
    except Exception as ex: bad.append('EXC '+type(ex).__name__)
    if bad:
        st['BAD']+=1; print(bad, a, b, float(sa), float(sb))
    else: st['ok']+=1
print(st)
