from measured import *
from measured import systems, conversions
from measured.si import *
from measured.us import *
from measured.electronics import dBW
from decimal import Decimal
a=Measurement(5*Meter, 3); b=Measurement(5*Meter, 1)
print("wide==narrow", a==b, "narrow==wide", b==a)
print(1*(Kilo*Meter) == 1000*Meter, hash(1*(Kilo*Meter))==hash(1000*Meter), hash(1*Meter)==hash(1.0*Meter)==hash(Decimal(1)*Meter))
print(1*Foot==12*Inch, hash(1*Foot)==hash(12*Inch))
# level comparisons
l = 20*dBW
print(l == 100*Watt, 100*Watt == l, l == approximately(100*Watt), approximately(100*Watt)==l)
print(l == 0.1*(Kilo*Watt), 0.1*(Kilo*Watt)==l)
try: print(l < 200*Watt)
except Exception as e: print("lt", type(e).__name__, e)
try: print(200*Watt > l, 50*Watt < l)
except Exception as e: print("gt", type(e).__name__, e)
try: print(sorted([3*Foot, 1*Meter, 30*Inch, 1*Yard, 0.5*Meter]))
except Exception as e: print(type(e).__name__, e)
# measurement with different units
m1=Measurement(1*Meter, 0.1); m2=Measurement(3.3*Foot, 0.2)
print(m1==m2, m2==m1, m1<m2, m2>m1, m1<=m2, m2>=m1)
# ordering incommensurable
for f in (lambda: 1*Meter < 1*Second, lambda: 1*Meter == 1*Second, lambda: 1*Meter + 1*Second, lambda: (1*Meter).in_unit(Second), lambda: 1*Meter <= 1*Second, lambda: Measurement(1*Meter,0)==Measurement(1*Second,0), lambda: Measurement(1*Meter,0) < Measurement(1*Second,0)):
    try: print(f())
    except Exception as e: print(type(e).__name__, str(e)[:70])
# <= mirror
x=1*Foot; y=0.3048*Meter
print(x==y, x<y, x>y, x<=y, x>=y, y<=x, y>=x)
