from measured import *
from measured import systems
from measured.si import *
from measured.us import *
import math
def show(label, f):
    try: r=f(); print(label, r.measurand, r.uncertainty)
    except Exception as e: print(label, "EXC", type(e).__name__, e)
x=Measurement(2*Meter,0.1); y=Measurement(3*Meter,0.2); z=Measurement(0*Meter,0.1)
for n in (-2,-1,0,1,2,3,4):
    exp = abs(n)*abs(2.0)**(n-1)*0.1
    show(f"pow {n} expect {exp}:", lambda: x**n)
show("mul zero", lambda: z*y)
show("div zero num", lambda: z/y)
show("add", lambda: x+y)
show("q + m", lambda: (1*Meter)+x)
show("q - m", lambda: (1*Meter)-x)
show("q * m", lambda: (2*Second)*x)
show("q / m", lambda: (2*Second)/x)
show("m / q", lambda: x/(2*Second))
show("m*m units", lambda: Measurement(2*Meter,0.1)*Measurement(10*Foot,0.5))
show("m+m units", lambda: Measurement(2*Meter,0.1)+Measurement(10*Foot,0.5))
show("m+m units2", lambda: Measurement(10*Foot,0.5)+Measurement(2*Meter,0.1))
show("neg", lambda: Measurement(-2*Meter,0.1)*Measurement(3*Meter,0.2))
show("int*", lambda: 3*x)
show("x*3", lambda: x*3)
