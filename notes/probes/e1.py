from measured import *
from measured import systems
from measured.si import *
from measured.us import *
from functools import reduce
import operator
def dim_ok(u):
    d = Number
    for f,e in u.factors.items():
        if f is u and e==1 and len(u.factors)==1: return True
        d = d * f.dimension**e
    return d is u.dimension
u = ElectronVolt*Meter/Second
print("before", [ (str(k[0]), [(str(a),b) for a,b in k[1]]) for k in Unit._known if False])
x = (Kilo*ElectronVolt/Second)
print(f"{x:/}")
k = Kilo*ElectronVolt
print(k, k.dimension, dim_ok(k))
y = Liter*Meter/Second
print(f"{y:/}")
z = Liter*Meter
print(z, z.dimension, dim_ok(z))
w = (Meter**4/Hectare)
print(w, w.dimension)
r = w.root(2)
print(r, r.dimension, r.factors, dim_ok(r))
bad = [u for u in Unit._known.values() if not dim_ok(u)]
print(len(bad), bad[:5])
