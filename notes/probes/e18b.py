import random, sys, math, collections
from fractions import Fraction as F
import oracle
from oracle import unit_size
from measured import *
from measured.si import *
from measured.us import Foot, Mile, Inch
rnd=random.Random(3); st=collections.Counter()
logs=[('bel',Bel),('dB',Decibel),('Np',Neper),('oct',Octave),('semi',Prefix(12,-1)*Octave),('cB',Prefix(10,-2)*Bel),('b3',Logarithm(3)),('b1.5p',Prefix(2,-2)*Logarithm(1.5)), ('dNp', Prefix(10,-1)*Neper)]
refs=[(Watt,[Watt,Kilo*Watt,Milli*Watt,Joule/Second, Joule/Hour]),(Volt,[Volt,Milli*Volt,Kilo*Volt]),(Pascal,[Pascal,Micro*Pascal,Newton/Meter**2, Newton/Foot**2]),(Meter/Second,[Meter/Second,Kilo*Meter/Hour,Mile/Hour,Foot/Second]),(Hertz,[Hertz,Kilo*Hertz,One/Minute]),(Ampere,[Ampere,Milli*Ampere,Coulomb/Hour])]
ROOT={Volt.dimension,Pascal.dimension,(Meter/Second).dimension,Ampere.dimension}
for i in range(20000):
    ln,lg=rnd.choice(logs); base_u,alts=rnd.choice(refs)
    ru=rnd.choice(alts); rm=10**rnd.uniform(-6,3)
    lu=lg[rm*ru]
    qu=rnd.choice(alts); 
    k=2 if base_u.dimension in ROOT else 1
    p=F(lg.prefix.base)**lg.prefix.exponent if lg.prefix.base else F(1)
    Lm=rnd.uniform(-200,200)
    # level->quantity
    try:
        q=(Lm*lu).quantify()
    except OverflowError: st['overflow']+=1; continue
    exp_ratio=math.exp(Lm*float(p)/k*math.log(lg.base))
    got_ratio=float(F(q.magnitude)*unit_size(q.unit)/(F(rm)*unit_size(ru)))
    if abs(got_ratio/exp_ratio-1)>1e-9: st['Q-BAD']+=1; print('Q',ln,ru,Lm,got_ratio,exp_ratio); continue
    # quantity -> level
    qm=10**rnd.uniform(-6,6); qq=qm*qu
    try: L=lu.level(qq)
    except Exception as e: st['EXC '+type(e).__name__]+=1; print(ln, qq, ru, repr(e)[:60]); continue
    ratio=float(F(qm)*unit_size(qu)/(F(rm)*unit_size(ru)))
    expL=k/float(p)*math.log(ratio)/math.log(lg.base)
    if abs(L.magnitude-expL)>1e-9*max(1,abs(expL)): st['L-BAD']+=1; print('L',ln,qq,ru,L.magnitude,expL); continue
    back=L.quantify()
    r2=float(F(back.magnitude)*unit_size(back.unit)/(F(qm)*unit_size(qu)))
    if abs(r2-1)>1e-9: st['RT-BAD']+=1; continue
    e1 = (L==approximately(qq,1e-9)); e2=(approximately(qq,1e-9)==L)
    if not (e1 and e2): st['EQ-BAD']+=1; print('EQ',ln,qq,L,e1,e2); continue
    st['ok']+=1
print(st)
