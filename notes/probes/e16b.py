import lark
from measured import _parser
g = open('/repo/src/measured/measured.lark').read()
fresh = lark.Lark(g, parser='lalr', start=['unit','quantity'])
shipped = _parser.Parser()
ft = fresh.parser.parser._parse_table
st = shipped.parser.parser._parse_table
print(type(ft).__name__, len(ft.states), len(st.states), ft.start_states, st.start_states, ft.end_states, st.end_states)
def act(a):
    k, v = a
    kn = getattr(k,'name',None) or str(k)
    if kn=='Shift' or k==0 and not hasattr(k,'name'): return ('S', v)
    return ('R', (str(v.origin.name), tuple(str(x.name) for x in v.expansion), v.alias))
def norm(table):
    out={}
    for s, row in table.states.items():
        out[s]={str(tok): act(a) for tok,a in row.items()}
    return out
F=norm(ft); S=norm(st)
# bijection by BFS from start states
from collections import deque
m={}
q=deque()
for k in ft.start_states:
    m[ft.start_states[k]]=st.start_states[k]; q.append(ft.start_states[k])
ok=True
while q:
    a=q.popleft(); b=m[a]
    ra, rb = F[a], S[b]
    if set(ra)!=set(rb): ok=False; print("token sets differ", a, b, set(ra)^set(rb)); break
    for t in ra:
        (ka,va),(kb,vb)=ra[t],rb[t]
        if ka!=kb: ok=False; print("kind differs",a,b,t); break
        if ka=='R':
            if va!=vb: ok=False; print("rule differs",a,b,t,va,vb); break
        else:
            if va in m:
                if m[va]!=vb: ok=False; print("inconsistent",a,b,t); break
            else: m[va]=vb; q.append(va)
    if not ok: break
print("isomorphic" if ok and len(m)==len(F)==len(S) else "NOT", len(m))
