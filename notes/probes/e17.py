import random, collections, sys
from measured import *
from measured import systems
from measured.parsing import ParseError
rnd=random.Random(int(sys.argv[1]) if len(sys.argv)>1 else 1)
alphabet = list("0123456789+-.eE^*/⋅ ⁰¹²³⁴⁵⁶⁷⁸⁹⁻abcdkmsgKMNΩμ°()1ₐₜÅ☉\t\n") 
syms = list(Unit._by_symbol)+list(Unit._by_name)[:50]+list(Prefix._by_symbol)
st=collections.Counter(); ex=collections.defaultdict(list)
def snap(): return (dict(Unit._by_name), dict(Unit._by_symbol), len(Unit._known))
for i in range(60000):
    n=rnd.randint(0,8)
    parts=[]
    for _ in range(n):
        r=rnd.random()
        if r<0.35: parts.append(rnd.choice(syms))
        elif r<0.5: parts.append(rnd.choice(['^2','^-1','²','⁻¹','^+3','⁻','^','^-','⁰','^0', '^99999999999999999999', '⁹⁹⁹⁹⁹⁹⁹⁹⁹⁹⁹⁹⁹⁹⁹⁹⁹⁹⁹⁹⁹⁹⁹']))
        elif r<0.6: parts.append(rnd.choice(['/','*','⋅',' ','  ']))
        elif r<0.75: parts.append(rnd.choice(['5','-5','5.2','1e3','1e400','-1e-400','.5','5.','+3','1E5','00','1e', '9'*400]))
        else: parts.append(''.join(rnd.choice(alphabet) for _ in range(rnd.randint(1,3))))
    s=''.join(parts) if rnd.random()<0.5 else ' '.join(parts)
    for nm,f in (('U',Unit.parse),('Q',Quantity.parse)):
        before=(len(Unit._by_name),len(Unit._by_symbol))
        try:
            r=f(s); st[nm+'-ok']+=1
            if nm=='Q' and type(r.magnitude) not in (int,float): st['Q-magtype']+=1; ex['Q-magtype'].append(s)
        except (ParseError, KeyError) as e:
            st[nm+'-rej']+=1
            if (len(Unit._by_name),len(Unit._by_symbol))!=before: st['REG-CHANGED']+=1
        except Exception as e:
            k=nm+'-EXC-'+type(e).__name__; st[k]+=1; ex[k].append((s, str(e)[:60]))
print(st)
for k,v in ex.items():
    print("==",k,len(v)); 
    for e in v[:10]: print("   ",repr(e))
