import random, sys, math, collections
import oracle
from fractions import Fraction as F
from decimal import Decimal
from measured import *
from measured.si import *
from measured.us import Foot, Inch, Yard, Mile, Pound, Ounce
from measured.si import Minute, Hour
import oracle
from oracle import unit_size
rnd=random.Random(5); st=collections.Counter()
fam=[[Meter,Kilo*Meter,Foot,Inch,Yard,Milli*Meter],[Second,Minute,Hour,Milli*Second],[Gram,Kilogram,Pound,Ounce]]
def mag(allow0=True):
    k=rnd.random()
    if allow0 and k<0.08: return 0
    v = rnd.randint(1,30) if k<0.4 else (round(rnd.uniform(0.01,80),4) if k<0.8 else Decimal(str(round(rnd.uniform(0.01,80),3))))
    return -v if rnd.random()<0.4 else v
def sig():
    k=rnd.random()
    if k<0.15: return 0
    return round(rnd.uniform(0.001,5),4) if k<0.8 else Decimal(str(round(rnd.uniform(0.001,5),3)))
def si(q): return F(q.magnitude)*unit_size(q.unit)
def mk(units, allow0=True):
    u=rnd.choice(units); x=mag(allow0); s=sig()
    plain = rnd.random()<0.25
    obj = Quantity(x,u) if plain else Measurement(Quantity(x,u), s)
    return obj, F(x)*unit_size(u), (F(0) if plain else F(s)*unit_size(u))
for i in range(40000):
    op=rnd.choice(['add','sub','mul','div','pow'])
    f1=rnd.choice(fam); f2=f1 if op in('add','sub') else rnd.choice(fam)
    try:
        if op=='pow':
            n=rnd.choice([-4,-3,-2,-1,0,1,2,3,4]); a,x,sx=mk(f1, allow0=False)
            if not isinstance(a,Measurement): continue
            r=a**n; ev=x**n; es=abs(n*x**(n-1)*sx) if n!=0 else F(0)
        else:
            a,x,sx=mk(f1); b,y,sy=mk(f2, allow0=(op!='div'))
            if not isinstance(a,Measurement) and not isinstance(b,Measurement): continue
            if op=='add': r=a+b; ev=x+y; es2=sx**2+sy**2
            elif op=='sub': r=a-b; ev=x-y; es2=sx**2+sy**2
            elif op=='mul': r=a*b; ev=x*y; es2=(y*sx)**2+(x*sy)**2
            else: r=a/b; ev=x/y; es2=(sx/y)**2+(x*sy/y**2)**2
            es=F(math.sqrt(es2)) if es2 else F(0)
    except Exception as e:
        k=f'EXC {op} {type(e).__name__}'; st[k]+=1
        if st[k]<3: print(k, a, locals().get('b'), e)
        continue
    gv=si(r.measurand); gs=si(r.uncertainty)
    scale=max(abs(ev),abs(x), abs(locals().get('y',0) if op in('add','sub') else 0), F(1,10**30))
    okv = abs(gv-ev)<=F(1,10**5)*scale
    oks = abs(gs-es)<=F(1,10**5)*max(es,abs(ev)*F(1,10**6),F(1,10**30)) 
    if gs<0: st['NEG']+=1
    if okv and oks: st['ok '+op]+=1
    else:
        k=f'BAD {op} v={okv} s={oks}'; st[k]+=1
        if st[k]<4: print(k, a, locals().get('b'), locals().get('n'), float(gv), float(ev), float(gs), float(es))
for k,v in sorted(st.items()): print(v,k)
