import random, sys, collections
from e4b import classify, named, bydim, degree
from dok import *
from measured import *
prefixes = sorted(set(Prefix._by_name.values()), key=lambda p:(p.base,p.exponent))
rnd=random.Random(int(sys.argv[1])); N=int(sys.argv[2])
okunits=[u for u in named if side_ok(u)]
print(len(okunits),"of",len(named),"named units are side_ok")
def build(terms):
    r=One
    for p,u,e in terms: r=r*(p*u)**e
    return r
st=collections.Counter(); tried=0
while st['total']<N:
    tried+=1
    n=rnd.choice([1,2,2,3,3])
    terms=[(rnd.choice(prefixes) if rnd.random()<0.3 else IdentityPrefix, rnd.choice(okunits), rnd.choice([1,1,2,3,-1,-1,-2,-3])) for _ in range(n)]
    src=build(terms)
    tt=[(rnd.choice(prefixes) if rnd.random()<0.3 else IdentityPrefix, rnd.choice(bydim[u.dimension]), e) for p,u,e in terms]
    rnd.shuffle(tt); dst=build(tt)
    if not in_dok(src,dst): continue
    st['total']+=1
    k,info=classify(src,dst); st[k]+=1
    if k not in ('ok','notfound'): print(k, str(src),'->',str(dst), info)
print(st, "tried", tried)
