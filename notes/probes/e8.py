import sys, importlib, random, collections
from fractions import Fraction as F
def fresh():
    for k in [k for k in sys.modules if k=='measured' or k.startswith('measured.')]: del sys.modules[k]
    m=importlib.import_module('measured'); importlib.import_module('measured.si'); return m
rnd=random.Random(int(sys.argv[1])); N=int(sys.argv[2])
st=collections.Counter()
def run(steps):
    m=fresh(); from measured.conversions import ConversionNotFound
    units={}; outs=[]
    dims={'L':m.Length,'T':m.Time,'A':m.Area}
    def U(expr):
        r=m.One
        for n,e in expr: r=r*units[n]**e
        return r
    for s in steps:
        if s[0]=='def': units[s[1]]=dims[s[2]].unit(s[1],s[1]); outs.append(None)
        elif s[0]=='eq':
            U([(s[1],1)]).equals(s[2]*U(s[3])); outs.append(None)
        elif s[0]=='q':
            try: outs.append(('v', (s[1]*U(s[2])).in_unit(U(s[3])).magnitude))
            except ConversionNotFound: outs.append(('CNF',))
            except Exception as e: outs.append(('EXC',type(e).__name__))
        elif s[0]=='cmp':
            try: outs.append(('b', s[1]*U(s[2]) == s[3]*U(s[4])))
            except Exception as e: outs.append(('EXC',type(e).__name__))
    return outs
for case in range(N):
    n=rnd.randint(3,6); names=[f"h{case}_{i}" for i in range(n)]
    steps=[('def',nm,'L') for nm in names]
    area=f"h{case}_a"; steps.append(('def',area,'A'))
    decl=[]
    order=list(names); rnd.shuffle(order)
    for i in range(1,n):
        if rnd.random()<0.85: decl.append(('eq',order[i],rnd.choice([2,3,0.5,10,12]),[(rnd.choice(order[:i]),1)]))
    if rnd.random()<0.7: decl.append(('eq',area,rnd.choice([4,100]),[(rnd.choice(names),2)]))
    if rnd.random()<0.3 and decl: 
        d=rnd.choice(decl); decl.append(('eq',d[1],7,d[3]))  # redeclare
    def rq():
        k=rnd.random()
        a,b=rnd.sample(names,2)
        if k<0.5: return ('q',rnd.choice([1,2.5]),[(a,1)],[(b,1)])
        if k<0.7: return ('q',1,[(a,2)],[(b,2)])
        if k<0.85: return ('q',1,[(area,1)],[(b,2)])
        return ('cmp',1,[(a,1)],3,[(b,1)])
    final=rq()
    inter=list(decl)
    for _ in range(rnd.randint(1,6)):
        q = final if rnd.random()<0.5 else rq()
        inter.insert(rnd.randint(0,len(inter)), q)
    A=run(steps+inter+[final]); B=run(steps+decl+[final])
    if A[-1]!=B[-1]: st['DIFF']+=1; print("DIFF",A[-1],B[-1],inter,final)
    else: st['same:'+A[-1][0]]+=1
print(st)
