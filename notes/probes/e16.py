import lark, json
from measured import _parser
g = open('/repo/src/measured/measured.lark').read()
fresh = lark.Lark(g, parser='lalr', start=['unit','quantity'])
shipped = _parser.Parser()
def norm(t):
    if hasattr(t, 'data'):
        return (str(t.data), [norm(c) for c in t.children])
    return ('TOK', t.type, str(t))
for s, st in [('m/s','unit'),('5 m','quantity'),('5.2e2 m^2*s','quantity'),('m²⋅s⁻¹','unit'), ('m m','unit'), ('m//s','unit'), ('1','unit'), ('1 1','quantity'), ('-.5 kg', 'quantity'), ('5. m', 'quantity'), ('5m','quantity'), ('m^-2','unit'), ('m^+2','unit'), ('m ^2','unit'), ('m⁻', 'unit')]:
    out=[]
    for p in (fresh, shipped):
        try: out.append(norm(p.parse(s, start=st)))
        except Exception as e: out.append('ERR '+type(e).__name__)
    print(s, st, out[0]==out[1], out[0] if out[0]!=out[1] else '', out[1] if out[0]!=out[1] else out[0])
# compare terminals
ft = {t.name:(t.pattern.to_regexp(), t.priority) for t in fresh.terminals}
stt = {t.name:(t.pattern.to_regexp(), t.priority) for t in shipped.terminals}
print(ft==stt)
for k in sorted(set(ft)|set(stt)):
    if ft.get(k)!=stt.get(k): print(k, ft.get(k), stt.get(k))
print(len(fresh.rules), len(shipped.rules))
fr = sorted((str(r.origin.name), tuple(str(x.name) for x in r.expansion), r.alias, r.order) for r in fresh.rules)
sr = sorted((str(r.origin.name), tuple(str(x.name) for x in r.expansion), r.alias, r.order) for r in shipped.rules)
print(fr==sr)
for a,b in zip(fr,sr):
    if a!=b: print(a,b)
pt = fresh.parser.parser._parse_table if hasattr(fresh.parser.parser,'_parse_table') else None
print(type(fresh.parser), type(fresh.parser.parser), dir(fresh.parser.parser)[:60])
