from measured import *
from measured import systems
from measured.si import *
from measured.us import *
import math
def lvl(logu, q):
    try: return logu.level(q)
    except Exception as e: return f"EXC {type(e).__name__} {e}"
dBW = Decibel[1*Watt]; dBm = Decibel[1*Milli*Watt]; dBV = Decibel[1*Volt]; NpV = Neper[1*Volt]; BW=Bel[1*Watt]
oct440 = Octave[440*Hertz]; semi = (Prefix(12,-1)*Octave)[440*Hertz]
cB = (Prefix(10,-2)*Bel)[1*Watt]
print("dBW(100W)", lvl(dBW,100*Watt), "dBm(1W)", lvl(dBm, 1*Watt), "dBV(10V)", lvl(dBV,10*Volt), "Np(eV)", lvl(NpV, math.e*Volt), "B(100W)", lvl(BW,100*Watt))
print("oct(880)", lvl(oct440, 880*Hertz), "semi(880)", lvl(semi, 880*Hertz), "cB(10W)", lvl(cB, 10*Watt))
print("hp ref", lvl(Decibel[1*Watt], 1*(Kilo*Watt)), lvl(dBW, 1*systems.energy.Horsepower))
print((20*dBW).quantify(), (20*dBV).quantify(), (1*NpV).quantify(), (12*semi).quantify(), (200*cB).quantify())
print((30*dBm).quantify(), (30*dBm)==1*Watt, 1*Watt==(30*dBm))
# NpW: neper with power quantity: level = 1/2 ln(P/P0)? property says k=1 for power
NpW = Neper[1*Watt]
print("NpW(e^2 W)", lvl(NpW, math.e**2*Watt), (1*NpW).quantify())
# roundtrip
for u,q in [(dBW, 3.3*Watt),(dBV, 0.02*Volt),(semi, 261.6*Hertz),(NpV, 5*Volt), (dBm, 2*Watt)]:
    L = lvl(u,q); 
    if isinstance(L,str): print(L); continue
    print(q, L, L.quantify(), L==q, q==L)
print(Decibel.prefix, repr(Decibel.prefix), Decibel.prefix.quantify(), repr(semi.logarithm.prefix), semi.logarithm.prefix.quantify())
# prefix deci identity
from measured.si import Deci, Deca
print("Deci", repr(Deci), Deci.name, Deci.symbol, Prefix._by_symbol.get('d'), Prefix._by_name.get('deci'), str(Deci*Meter), str(Deca*Meter))
print(Unit.parse('dm'), Unit.parse('dm') is Deca*Meter)
