from measured import *
from measured import systems
from measured.si import *
x = (ElectronVolt/Second)*Meter
print(f"{x:/}")
z = ElectronVolt*Meter
print(z, z.dimension, (ElectronVolt.dimension*Meter.dimension))
print(Energy*Length is z.dimension)
q = (3*z).in_unit(Joule*Meter)
print(q)
