import oracle
import random, collections, itertools
from fractions import Fraction as F
from decimal import Decimal
from measured import *
from measured.si import *
from measured.iec import *
from oracle import unit_size, pfx
st=collections.Counter()
prefixes=[IdentityPrefix]+sorted(set(Prefix._by_name.values()), key=lambda p:(p.base,p.exponent))
units=[Meter,Second,Gram,Bit,Byte,Newton,Liter,Hertz,Meter/Second,Joule/Kilogram, Radian]
def si(q): return F(q.magnitude)*unit_size(q.unit)
def close(a,b,tol): 
    return a==b or abs(a-b)<=tol*max(abs(a),abs(b))
rnd=random.Random(2)
for p,q in itertools.product(prefixes,prefixes):
    same = p.base==q.base or 0 in (p.base,q.base)
    tol=F(1,10**12) if same else F(1,10**9)
    # product/quotient
    for op,name,exp in ((lambda a,b:a*b,'mul',pfx(p)*pfx(q)),(lambda a,b:a/b,'div',pfx(p)/pfx(q))):
        r=op(p,q)
        if same:
            e = (p.exponent if p.base else 0) + (q.exponent if q.base else 0)*(1 if name=='mul' else -1)
            b = p.base or q.base
            want = Prefix(b,e) if b else IdentityPrefix
            st[f'{name} same ' + ('ok' if r is want else 'BAD')]+=1
            if r is not want: print(name, repr(p), repr(q), repr(r), repr(want))
        else:
            v=F(r.base)**F(r.exponent).limit_denominator(10**12) if False else F(float(r.base)**float(r.exponent))
            st[f'{name} mixed ' + ('ok' if close(v,exp,tol) else 'BAD')]+=1
for p in prefixes:
    for u in units:
        for n in (-4,-3,-2,-1,0,1,2,3,4):
            try:
                a=(p*u)**n; b=(p**n)*(u**n)
                st['pow '+('ok' if a is b else 'BAD')]+=1
                if a is not b and st['pow BAD']<5: print('pow',repr(p),u,n,repr(a)[:80],repr(b)[:80])
            except Exception as e: st['pow EXC '+type(e).__name__]+=1
        for m in (3, 2.5, Decimal('1.25')):
            qn=m*(p*u)
            want=F(m)*pfx(p)*pfx(u.prefix)*unit_size(Unit(IdentityPrefix,u.factors,u.dimension))
            st['value '+('ok' if close(si(qn),want,F(1,10**12)) else 'BAD')]+=1
            up=qn.unprefixed()
            okp = up.unit.prefix is IdentityPrefix and close(si(up),want,F(1,10**12))
            st['unprefixed '+('ok' if okp else 'BAD')]+=1
            if not okp and st['unprefixed BAD']<5: print('unpref',qn,up, float(si(up)), float(want))
            d=(m*Meter)/(p*u)
            wd=F(m)/(pfx(p)*unit_size(u))
            st['divide '+('ok' if close(si(d),wd,F(1,10**12)) else 'BAD')]+=1
        st['identity '+('ok' if (IdentityPrefix*(p*u) is p*u and (p*u)*One is p*u) else 'BAD')]+=1
for k,v in sorted(st.items()): print(v,k)
