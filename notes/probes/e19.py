from measured import *
from measured import systems
from measured.si import *
def snap():
    return (dict(Unit._by_name), dict(Unit._by_symbol), set(Unit._base), dict(Unit._known), dict(Dimension._by_name), dict(Prefix._by_name), dict(Prefix._by_symbol), {u:(u.names,u.symbols) for u in Unit._known.values() if hasattr(u,'names')})
def diff(a,b):
    names=['Unit._by_name','Unit._by_symbol','Unit._base','Unit._known','Dimension._by_name','Prefix._by_name','Prefix._by_symbol','names/symbols']
    return [n for n,x,y in zip(names,a,b) if x!=y]
def attempt(label,f):
    s=snap()
    try: r=f(); print(label,"-> ok", r, "changed:", diff(s,snap()))
    except Exception as e: print(label,"-> raised",type(e).__name__,str(e)[:60],"| changed:",diff(s,snap()))
attempt("define dup name", lambda: Unit.define(Length,"meter","zz1"))
attempt("define dup symbol", lambda: Unit.define(Length,"zz2","m"))
attempt("define space symbol", lambda: Unit.define(Length,"zz3","z z"))
attempt("Length.unit space symbol", lambda: Length.unit("zz3b","z y"))
attempt("derive dup name", lambda: Unit.derive(Meter/Second**7,"meter","zz4"))
attempt("derive new name dup symbol", lambda: Unit.derive(Meter/Second**7,"zz5","m"))
attempt("alias name ok symbol dup", lambda: (Meter/Second**8).alias(name="zz6",symbol="s"))
attempt("alias symbol space", lambda: (Meter/Second**9).alias(name="zz7",symbol="a b"))
attempt("Dimension.derive dup name", lambda: Dimension.derive(Length**7,"length"))
print(Dimension.named("length"), Length.name, (Length**7).name)
# anonymous first then name
anon = Meter**5/Second**3
named = Unit.derive(Meter**5/Second**3, "zzanon", "zzan")
print(named is anon, Unit.named("zzanon") is anon, Unit.resolve_symbol("zzan") is anon, anon.name, anon.symbol)
p_anon = Prefix(7,3)
p_named = Prefix(7,3,name="septo",symbol="sp")
print(p_named is p_anon, p_named.name, Prefix._by_name.get("septo"), Prefix._by_symbol.get("sp"))
d_anon = Dimension((0,9,0,0,0,0,0,0,0,0))
d_named = Dimension((0,9,0,0,0,0,0,0,0,0), name="ninelength", symbol="L9")
print(d_named is d_anon, d_named.name, Dimension.named("ninelength"))
# Unit constructor with name given for existing structure
u2 = Unit(IdentityPrefix, {Meter:5, Second:-4}, Length**5/Time**4)
u3 = Unit(IdentityPrefix, {Meter:5, Second:-4}, Length**5/Time**4, name="zzlate", symbol="zzl")
print(u3 is u2, u3.name, Unit._by_name.get("zzlate"))
# Unit.__new__ returns by name regardless of structure
u4 = Unit(IdentityPrefix, {Meter:6}, Length**6, name="meter")
print("u4", u4, u4 is Meter)
# duplicate symbol among shipped: check every unit: each of its names/symbols resolves to it
bad=[(u, n) for u in set(Unit._known.values()) for n in getattr(u,'names',()) if Unit._by_name.get(n) is not u]
bad2=[(u, s) for u in set(Unit._known.values()) for s in getattr(u,'symbols',()) if Unit._by_symbol.get(s) is not u]
print("names bad", bad, "symbols bad", bad2)
badp=[(repr(p),p.name,p.symbol) for p in Prefix._known.values() if (p.name and Prefix._by_name.get(p.name) is not p) or (p.symbol and Prefix._by_symbol.get(p.symbol) is not p)]
print("prefix bad", badp)
uninit=[k for k,u in Unit._known.items() if not getattr(u,'_initialized',False)]
print("uninitialised units in _known:", len(uninit))
