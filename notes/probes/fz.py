import sys
sys.path.insert(0,'/tmp/x/deps')
import atheris
with atheris.instrument_imports(include=['measured']):
    import measured
    from measured import systems
from measured.parsing import ParseError
from measured import Unit, Quantity
def one(data):
    fdp=atheris.FuzzedDataProvider(data)
    s=fdp.ConsumeUnicodeNoSurrogates(64)
    for f in (Unit.parse, Quantity.parse):
        try: f(s)
        except (ParseError, KeyError): pass
atheris.Setup(sys.argv, one)
atheris.Fuzz()
