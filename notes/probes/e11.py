from measured import *
from measured import systems
from measured.si import *
from measured.iec import *
x = Kilo*Byte
print(repr(x.prefix))
try: print(repr(((x**2).root(2)).prefix))
except Exception as e: print("ERR", repr(e))
p = Kilo*Kibi
print(repr(p), p.quantify(), 1000*1024)
print(repr(p/Kibi), (p/Kibi) is Kilo, repr((Kibi*Kilo)/Kilo))
print(repr(Kibi**2), repr((Kibi**2).root(2)))
print(repr((Kilo*Kibi)**2), )
try: print(repr(((Kilo*Kibi)**2).root(2)))
except Exception as e: print("ERR", repr(e))
# quantities
print((1*(Kilo*Kibi)*Meter) == 1024000*Meter)
print((3*(Kibi*Bit)).in_unit(Kilo*Bit), (3*(Kibi*Bit)) == 3.072*(Kilo*Bit))
print(1*(Mebi*Bit) == 1048.576*Kilo*Bit)
q = 5*(Kilo*Meter)
print(q.unprefixed(), (5*(Milli*Meter)).unprefixed(), (5*(Kilo*Meter)**-2).unprefixed())
print(Milli.quantify(), type(Milli.quantify()), (Kilo**-1).quantify())
from decimal import Decimal
print((Decimal('1.5')*(Milli*Meter)).unprefixed())
print(repr(Prefix(10,3)*Prefix(2,10)*Prefix(10,-3)))
