import random, collections
from measured import *
from measured import systems
from measured.parsing import ParseError
named = sorted({u for u in Unit._by_name.values()}, key=lambda u: u.name)
prefixes = [IdentityPrefix]+sorted(set(Prefix._by_name.values()), key=lambda p:(p.base,p.exponent))
rnd=random.Random(7); st=collections.Counter(); ex=collections.defaultdict(list)
for i in range(20000):
    a=(rnd.choice(prefixes)*rnd.choice(named))**rnd.choice([1,2,3,-1,-2,-3])
    b=(rnd.choice(prefixes)*rnd.choice(named))**rnd.choice([1,2,3,-1,-2,-3])
    u=a*b; s=str(u)
    try:
        v=Unit.parse(s); st['unit-ok' if v is u else 'unit-other']+=1; continue
    except (ParseError,KeyError): pass
    folded = s[0].isdigit() and ' ' in s
    try:
        q=Quantity.parse(s)
    except (ParseError,KeyError) as e:
        k='q-reject-'+('folded' if folded else 'nofold'); st[k]+=1; ex[k].append(s); continue
    try: eq = (q==1*u)
    except Exception as e: eq='EXC '+type(e).__name__
    if eq is True: st['q-equal']+=1
    else:
        # approx?
        try:
            r=q.unprefixed().magnitude/(1*u).unprefixed().magnitude
        except Exception: r=None
        k=f'q-notequal'; st[k]+=1; ex[k].append((s, repr(q.unit is u), r))
print(st)
for k,v in ex.items():
    print('==',k,len(v)); 
    for e in v[:10]: print('   ',e)
