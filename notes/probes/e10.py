from measured import *
from measured import systems, conversions
from measured.si import *
from measured.us import *
from fractions import Fraction as F
from decimal import Decimal
import itertools
def toK(scale, x):
    x=F(x)
    return {Kelvin: x, Celsius: x+F('273.15'), Rankine: x*F(5,9), Fahrenheit:(x+F('459.67'))*F(5,9)}[scale]
def fromK(scale,k):
    return {Kelvin:k, Celsius:k-F('273.15'), Rankine:k*F(9,5), Fahrenheit:k*F(9,5)-F('459.67')}[scale]
scales=[Kelvin,Celsius,Rankine,Fahrenheit]
for a,b in itertools.permutations(scales,2):
    for x in [0, 100, -40, 37.5, -500, Decimal('21.5')]:
        try:
            got=(x*a).in_unit(b)
            exp=fromK(b,toK(a,x))
            err=abs(F(got.magnitude)-exp)
            flag = '' if err < F(1,10**9)*max(1,abs(exp)) else 'WRONG'
            if flag: print(a.symbol,b.symbol,x,got.magnitude,float(exp),flag)
        except Exception as e:
            print(a.symbol,b.symbol,x,'EXC',type(e).__name__,e)
# prefixes
for a,b,x in [(Milli*Kelvin, Celsius, 300000), (Kilo*Celsius, Kelvin, 1), (Celsius, Milli*Kelvin, 0), (Milli*Celsius, Fahrenheit, 20000), (Celsius, Kilo*Fahrenheit, 100)]:
    try:
        got=(x*a).in_unit(b); print(a,b,x,got)
    except Exception as e: print(a,b,x,'EXC',type(e).__name__,e)
print(0*Celsius == 273.15*Kelvin, 273.15*Kelvin == 0*Celsius, 32*Fahrenheit==0*Celsius, 0*Celsius==32*Fahrenheit, 0*Celsius < 33*Fahrenheit, 100*Celsius > 200*Fahrenheit)
print(conversions._find_path(Fahrenheit, Celsius))
print(conversions._ratios[Kelvin], conversions._offsets[Kelvin])
