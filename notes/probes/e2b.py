import random, collections, sys
from fractions import Fraction
from measured import *
from measured import systems
rnd = random.Random(int(sys.argv[1]) if len(sys.argv)>1 else 1)
base = sorted(Unit._base, key=lambda u: u.name)
named = sorted(set(Unit._by_name.values()), key=lambda u:u.name)
prefixes = [IdentityPrefix]+sorted(set(Prefix._by_name.values()), key=lambda p:(p.base,p.exponent))
si_prefixes=[p for p in prefixes if p.base in (0,10)]
# model: (dict base->exp, dict prefixbase->Fraction exp)
def m_of(u):
    return ({f:e for f,e in u.factors.items() if not (f is One)}, {u.prefix.base:Fraction(u.prefix.exponent)} if u.prefix.base else {})
def m_mul(a,b,s=1):
    f=dict(a[0]); 
    for k,e in b[0].items():
        f[k]=f.get(k,0)+s*e
    p=dict(a[1])
    for k,e in b[1].items(): p[k]=p.get(k,0)+s*e
    return ({k:e for k,e in f.items() if e}, {k:e for k,e in p.items() if e})
def m_pow(a,n): return ({k:e*n for k,e in a[0].items() if e*n}, {k:e*n for k,e in a[1].items() if e*n})
def gen(depth, pfx):
    r = rnd.random()
    if depth==0 or r<0.3:
        u = rnd.choice(named); p = rnd.choice(pfx)
        if rnd.random()<0.5: p=IdentityPrefix
        x = p*u
        return x, m_mul(m_of(u), ({}, {p.base:Fraction(p.exponent)} if p.base else {})), f"({p}*{u.name})"
    if r<0.55:
        a,ma,sa=gen(depth-1,pfx); b,mb,sb=gen(depth-1,pfx); return a*b, m_mul(ma,mb), f"({sa}*{sb})"
    if r<0.8:
        a,ma,sa=gen(depth-1,pfx); b,mb,sb=gen(depth-1,pfx); return a/b, m_mul(ma,mb,-1), f"({sa}/{sb})"
    a,ma,sa=gen(depth-1,pfx); n=rnd.choice([-3,-2,-1,0,1,2,3]); return a**n, m_pow(ma,n), f"({sa}**{n})"
canon = {}
stats=collections.Counter()
for i in range(20000):
    u,m,s = gen(3, si_prefixes)
    key=(tuple(sorted(((id(k),e) for k,e in m[0].items()))), tuple(sorted(m[1].items())))
    if key in canon:
        if canon[key][0] is not u:
            stats['NOT-IDENTICAL']+=1
            if stats['NOT-IDENTICAL']<10: print("NI", s, '|', canon[key][1], repr(u)[:150], repr(canon[key][0])[:150])
        else: stats['identical']+=1
    else:
        canon[key]=(u,s); stats['new']+=1
    # check structure vs model
    uf={f:e for f,e in u.factors.items() if f is not One}
    if uf!=m[0]: stats['FACTORS']+=1; print("F", s, uf, m[0])
    pe = {u.prefix.base: Fraction(u.prefix.exponent)} if u.prefix.base else {}
    if pe!=m[1]: stats['PREFIX']+=1; 
    if pe!=m[1] and stats['PREFIX']<10: print("P", s, pe, m[1], repr(u.prefix))
print(stats)
