import pickle, copy, json, collections, random
from decimal import Decimal
from measured import *
from measured import systems
from measured.json import MeasuredJSONEncoder, MeasuredJSONDecoder
from measured.si import *
from measured.iec import *
st=collections.Counter(); ex=collections.defaultdict(list)
def rt(x, kind):
    for nm, f in [('pickle', lambda v: pickle.loads(pickle.dumps(v))), ('copy', copy.copy), ('deepcopy', copy.deepcopy), ('json', lambda v: json.loads(json.dumps(v, cls=MeasuredJSONEncoder), cls=MeasuredJSONDecoder))]:
        try:
            y=f(x)
        except Exception as e:
            k=f'{kind}-{nm}-EXC-{type(e).__name__}'; st[k]+=1; ex[k].append((str(x), str(e)[:80])); continue
        if kind=='q':
            ok = (y==x) and type(y.magnitude) is type(x.magnitude) and (nm=='json' or y.unit is x.unit)
        else:
            ok = y is x
        k=f'{kind}-{nm}-{"ok" if ok else "BAD"}'; st[k]+=1
        if not ok: ex[k].append((repr(x)[:120], repr(y)[:120]))
for d in list(Dimension._known.values()): rt(d,'d')
for p in list(Prefix._known.values()): rt(p,'p')
named=sorted(set(Unit._by_name.values()), key=lambda u:u.name)
prefixes=[IdentityPrefix]+sorted(set(Prefix._by_name.values()), key=lambda p:(p.base,p.exponent))
rnd=random.Random(3)
units=list(named)
for i in range(1500):
    units.append((rnd.choice(prefixes)*rnd.choice(named))**rnd.choice([1,2,-1,-2,3]))
for i in range(1500):
    units.append((rnd.choice(prefixes)*rnd.choice(named))**rnd.choice([1,2,-1])*(rnd.choice(prefixes)*rnd.choice(named))**rnd.choice([1,2,-1]))
for u in units: rt(u,'u')
for u in units[::3]:
    for m in (3, 2.5, Decimal('1.25')):
        rt(Quantity(m,u),'q')
print(sorted(st.items()))
for k,v in ex.items():
    print('==',k,len(v))
    for e in v[:8]: print('   ',e)
