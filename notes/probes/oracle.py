"""Exploratory oracle: intercept declarations, solve sizes exactly."""
from fractions import Fraction
import math, sys
import measured
from measured import conversions, Unit, Prefix, Quantity, One, Dimension

DECLS = []   # (a_unit_unprefixed_factors, ratio Fraction, b_factors)  meaning 1 a = ratio b
SCALES = []  # (scale_unit, zero magnitude, degree unit)

def pfx(p):
    if p.base == 0: return Fraction(1)
    e = p.exponent
    if isinstance(e, int):
        return Fraction(p.base) ** e
    return Fraction(float(p.base) ** float(e))

def fr(x):
    from decimal import Decimal
    if isinstance(x, (int, Fraction)): return Fraction(x)
    return Fraction(x)  # exact for float/Decimal

_orig_equate = conversions.equate
_orig_translate = conversions.translate
def equate(a, b):
    # 1? a.magnitude a.unit = b.magnitude b.unit
    ra = fr(a.magnitude) * pfx(a.unit.prefix)
    rb = fr(b.magnitude) * pfx(b.unit.prefix)
    DECLS.append((dict(a.unit.factors), rb / ra, dict(b.unit.factors), str(a.unit), str(b)))
    return _orig_equate(a, b)
def translate(scale, zero):
    SCALES.append((scale, zero))
    return _orig_translate(scale, zero)
conversions.equate = equate
conversions.translate = translate
# One.equals(1*One) already happened.
from measured import systems

def solve():
    size = {}
    residuals = []
    pending = list(DECLS)
    roots = []
    progress = True
    while pending:
        progress = False
        rest = []
        for d in pending:
            fa, r, fb, sa, sb = d
            # combined exponents: size(a) = r size(b)  => prod a^ea / prod b^eb = r
            comb = {}
            for u, e in fa.items(): comb[u] = comb.get(u, 0) + e
            for u, e in fb.items(): comb[u] = comb.get(u, 0) - e
            comb = {u: e for u, e in comb.items() if e != 0}
            unk = [u for u in comb if u not in size]
            if not unk:
                val = Fraction(1)
                for u, e in comb.items(): val *= size[u] ** e
                residuals.append((float(val / r) - 1, sa, sb))
                progress = True
            elif len(unk) == 1 and abs(comb[unk[0]]) == 1:
                u = unk[0]
                val = Fraction(1)
                for v, e in comb.items():
                    if v is not u: val *= size[v] ** e
                # u^e * val = r
                s = r / val
                size[u] = s if comb[u] == 1 else 1 / s
                progress = True
            else:
                rest.append(d)
        pending = rest
        if not progress:
            # pick a root: prefer first unknown in first pending decl's RHS
            fa, r, fb, sa, sb = pending[0]
            cands = [u for u in list(fb) + list(fa) if u not in size]
            u = cands[0]
            size[u] = Fraction(1); roots.append(u)
    return size, residuals, roots

SIZE, RESID, ROOTS = solve()
for u in Unit._base:
    if u not in SIZE:
        SIZE[u] = Fraction(1); ROOTS.append(u)

ROOTVEC = {}
def _rootvecs():
    # express each base unit as  coeff * prod roots^k
    pending = list(DECLS)
    for r in ROOTS: ROOTVEC[r] = {r: Fraction(1)}
    changed=True
    while changed:
        changed=False
        for fa, r, fb, sa, sb in DECLS:
            comb = {}
            for u, e in fa.items(): comb[u] = comb.get(u, 0) + e
            for u, e in fb.items(): comb[u] = comb.get(u, 0) - e
            comb = {u: e for u, e in comb.items() if e != 0}
            unk = [u for u in comb if u not in ROOTVEC]
            if len(unk)==1 and abs(comb[unk[0]])==1:
                u=unk[0]; vec={}
                for v,e in comb.items():
                    if v is u: continue
                    for rt,k in ROOTVEC[v].items():
                        vec[rt]=vec.get(rt,0) - Fraction(e*k, comb[u])
                ROOTVEC[u]={k:v for k,v in vec.items() if v}
                changed=True
_rootvecs()
def root_vector(u):
    vec={}
    for f,e in u.factors.items():
        for rt,k in ROOTVEC.get(f,{f:Fraction(1)}).items():
            vec[rt]=vec.get(rt,0)+k*e
    return {k:v for k,v in vec.items() if v}
def determined(a,b):
    return root_vector(a)==root_vector(b)

def unit_size(u):
    s = pfx(u.prefix)
    for f, e in u.factors.items():
        s *= SIZE[f] ** e
    return s

if __name__ == "__main__":
    print("decls", len(DECLS), "roots", [str(r) for r in ROOTS])
    for res, sa, sb in sorted(RESID, key=lambda t: -abs(t[0]))[:25]:
        print(f"{res:+.3e}  {sa} = {sb}")
