import random, sys, itertools, collections, traceback
from fractions import Fraction
import oracle
from oracle import SIZE, unit_size, pfx
from measured import *
from measured import conversions
from measured.conversions import ConversionNotFound

SCALE_UNITS = {s for s,_ in oracle.SCALES}
named = sorted({u for u in Unit._by_name.values() if u not in SCALE_UNITS and u is not One}, key=lambda u: u.name)
print(len(named), "named offset-free units")
prefixes = sorted(set(Prefix._by_name.values()), key=lambda p:(p.base,p.exponent))
rnd = random.Random(int(sys.argv[1]) if len(sys.argv)>1 else 1)
bydim = collections.defaultdict(list)
for u in named: bydim[u.dimension].append(u)

def rand_term():
    u = rnd.choice(named)
    p = rnd.choice(prefixes) if rnd.random()<0.3 else IdentityPrefix
    e = rnd.choice([1,1,1,2,3,-1,-1,-2,-3])
    return p,u,e
def build(terms):
    r = One
    for p,u,e in terms:
        r = r * (p*u)**e
    return r
def degree(u):
    return sum(abs(e) for e in u.factors.values())
stats = collections.Counter(); examples = collections.defaultdict(list)
N = int(sys.argv[2]) if len(sys.argv)>2 else 3000
for i in range(N):
    n = rnd.choice([1,1,2,2,3])
    terms = [rand_term() for _ in range(n)]
    src = build(terms)
    # target: replace each term by same-dimension unit, random prefix
    tterms = []
    for p,u,e in terms:
        mode = rnd.random()
        v = rnd.choice(bydim[u.dimension])
        q = rnd.choice(prefixes) if rnd.random()<0.3 else IdentityPrefix
        tterms.append((q,v,e))
    rnd.shuffle(tterms)
    dst = build(tterms)
    if src.dimension is not dst.dimension:
        print("DIMMISMATCH", terms, tterms, src.dimension, dst.dimension); stats["dimmismatch"]+=1; continue
    exp = unit_size(src)/unit_size(dst)
    try:
        got = (1.0*src).in_unit(dst)
    except ConversionNotFound as ex:
        stats['notfound']+=1; examples['notfound'].append((str(src),str(dst))); continue
    except Exception as ex:
        k = 'exc:'+type(ex).__name__
        stats[k]+=1; examples[k].append((str(src),str(dst), repr(ex)[:80])); continue
    if got.unit is not dst:
        stats['wrongunit']+=1; continue
    rel = float(abs(Fraction(got.magnitude)/exp-1))
    tol = 1e-5*max(1,degree(src)+degree(dst))
    if rel is None or not (rel<=tol):
        stats['WRONG']+=1; examples['WRONG'].append((str(src),str(dst),got.magnitude,float(exp)))
    else:
        stats['ok']+=1
print(stats)
for k,v in examples.items():
    print("==",k)
    for e in v[:25]: print("   ",e)
